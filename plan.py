"""
Proof plan: every proof unit, which property it serves, which real function is under contract,
which callees are replaced by their contracts, loop-contract templates, kind and bound.

kind:  "complete"   loop-free (or constant-bounded loops fully unwound with unwinding assertions)
                    over fully symbolic inputs  -> all inputs
       "unbounded"  every input-dependent loop/recursion closed by an inductive loop contract /
                    recursive contract -> all inputs, all iterations
       "bounded:<what>"  bounded stand-in, never counted as proved
"""

GLOBAL_TRUSTED = [
    "cbmc 6.11.0 / goto-cc / goto-instrument (front end, DFCC instrumentation, SAT back end minisat2)",
    "C semantics of the gcc x86_64 target as modelled by goto-cc (LP64, little endian)",
]
GLOBAL_ASSUMPTIONS = [
    "machine arithmetic is bit-precise (nothing is treated as mathematical integers)",
    "units are compiled WITHOUT -DNDEBUG: every assert() of the library is an obligation",
]

# contracts used in place of a body that no unit proves: why they are assumed
ASSUMED_CONTRACTS = {
}

NOT_APPLICABLE = {
    "C08": "time-bounded liveness over unbounded fault histories with real sleeps: code contracts express no "
           "'eventually' and no inductive invariant within reach bounds convergence time; the safety ingredients "
           "(C05/C07 invariants, error states return to CONNECTING) are decided under those properties",
}

PROPS = {
    "C20": {
        "level": "proof",
        "explanation": "rtr_state_to_str and rtr_mgr_status_to_str are verified against the contract "
                       "'declared enumerator -> its name as spelled in the public header (table regenerated from "
                       "rtr.h / rtr_mgr.h on each run), anything else -> NULL, no access outside the table' for all "
                       "2^32 argument values (loop-free functions, complete).",
        "trusted": [],
        "assumptions": [],
    },
}


def U(**kw):
    kw.setdefault("props", [])
    kw.setdefault("enforce", [])
    kw.setdefault("replace", [])
    kw.setdefault("tier", "quick")
    kw.setdefault("kind", "complete")
    return kw


UNITS = [
    # ------------------------------------------------------------------ C20
    U(id="c20_state_names", props=["C20"], file="units/c20_state_names.c", entry="h_c20_state",
      enforce=["rtr_state_to_str"], kind="complete", bound=70,
      static_init=[("socket_str_states", "rtrlib/rtr/rtr.c")],
      native={}),
    U(id="c20_mgr_names", props=["C20"], file="units/c20_mgr_names.c", entry="h_c20_mgr",
      enforce=["rtr_mgr_status_to_str"], kind="complete", bound=70,
      native={}),
]


def unit(uid):
    for u in UNITS:
        if u["id"] == uid:
            return u
    raise KeyError(uid)


def backend_of(u):
    fl = u.get("cbmc_flags", [])
    for f in fl:
        if f in ("--cvc5", "--z3", "--smt2"):
            return "cbmc SMT back end " + f
        if f.startswith("--sat-solver") or f.startswith("--external-sat-solver"):
            return "cbmc SAT back end " + f
    return "cbmc SAT back end (minisat2, built in)"
