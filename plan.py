"""
Proof plan: every proof unit, which property it serves, which real function is under contract,
which callees are replaced by their contracts, loop-contract templates, kind and bound.

kind:  "complete"   loop-free (or constant-bounded loops fully unwound with unwinding assertions)
                    over fully symbolic inputs  -> all inputs
       "unbounded"  every input-dependent loop/recursion closed by an inductive loop contract /
                    recursive contract -> all inputs, all iterations
       "bounded:<what>"  bounded stand-in, never counted as proved
"""

GLOBAL_TRUSTED = [
    "cbmc 6.11.0 / goto-cc / goto-instrument (front end, DFCC instrumentation, SAT back end minisat2)",
    "C semantics of the gcc x86_64 target as modelled by goto-cc (LP64, little endian)",
]
GLOBAL_ASSUMPTIONS = [
    "machine arithmetic is bit-precise (nothing is treated as mathematical integers)",
    "units are compiled WITHOUT -DNDEBUG: every assert() of the library is an obligation",
]

# contracts used in place of a body that no unit proves: why they are assumed
ASSUMED_CONTRACTS = {
    "trie_lookup_exact": "client reading (ghost script) of the contract proved on the spine by lookup_exact_v4",
    "pfx_table_find_elem": "client reading of the contract proved by find_elem",
    "pfx_table_append_elem": "client reading of the contract proved by append_elem",
    "pfx_table_del_elem": "client reading of the contract proved by del_elem",
    "pfx_table_create_node": "allocates and fills one node or fails without effect (by reading; not under contract on its body)",
    "trie_insert": "effect on the trie shown bounded by shape_insert",
    "trie_remove": "effect on the trie shown bounded by shape_remove",
    "verif_fmt": "libc snprintf: writes at most `size` bytes into the destination and NUL-terminates it",
}

NOT_APPLICABLE = {
    "C08": "time-bounded liveness over unbounded fault histories with real sleeps: code contracts express no "
           "'eventually' and no inductive invariant within reach bounds convergence time; the safety ingredients "
           "(C05/C07 invariants, error states return to CONNECTING) are decided under those properties",
}

ENV_TRUSTED = [
    "environment model of the transport: recv_fp/send_fp return an error code < 0 or move 1..len bytes (never 0)",
    "lrtr_dbg has no effect on library state; pthread cancellation is not modelled",
]
PROPS = {
    "C01": {
        "level": "other",
        "explanation": "pfx_table_validate_r / pfx_table_validate are verified against RFC 6811 over the query's path for a path of any length "
                       "the address width admits (IPv4 in the quick tier): VALID only if a covering node matches, INVALID only if some node "
                       "covers and no covering node matches, NOT FOUND only if none covers ('for all nodes' through an arbitrary ghost "
                       "node, inductive loop contract on the descent, trie_lookup and the element test replaced by their contracts); "
                       "trie_lookup returns the first covering node (loop contract); bit extraction, address equality and zero test "
                       "against a 32/128-bit spec for all inputs; the element test for arrays of any length (no-match direction) and up "
                       "to 4 elements (match direction); the path lemma for all prefixes ties 'covering' to 'on the path'. "
                       "Level 'other': IPv6 path units run in the thorough tier only; the reason list is not decided; that every "
                       "mutator keeps covering records on the path is shown bounded (trie shapes of 2-3 levels, units shape_*).",
        "trusted": ["executable contract stubs of lrtr_ip_addr_get_bits / _is_zero / _equal (contracts proved by the l0_* units)"],
        "assumptions": ["well-formed table: lengths <= address width, a node at depth d has length >= d (maintained by the mutators, C02)"],
    },
    "C02": {
        "level": "other",
        "explanation": "Exact lookup (trie_lookup_exact: first node equal to the key, or the insertion parent; any path length, loop contract), "
                       "element arrays of any length (find = first equal element in AS/max length/source, delete shifts exactly the "
                       "tail and restores on failure, append keeps the old elements; loop contracts with ghost index), the path lemma "
                       "(complete), and the real recursive trie_insert / trie_remove on EVERY trie shape of 2 (quick) / 3 (thorough) "
                       "levels below the node operated on: payload multiset, 'children not shorter than parent', parent links and "
                       "'each node hangs on the side its own bit selects' are preserved (bounded). Whole-table operation histories "
                       "(add/remove/remove-by-source/enumerate against the mathematical set) run in the thorough tier only (pfx_hist).",
        "trusted": ["executable contract stubs of the ip functions; lrtr_realloc modelled as in-place resize or failure"],
        "assumptions": ["pfx_table_add / pfx_table_remove / pfx_table_src_remove / enumeration as compositions of the verified pieces are covered "
                        "only by the thorough-tier history unit"],
    },
    "C03": {
        "level": "other",
        "explanation": "Modular pieces of the payload phase, each complete: the record built from a prefix / router-key PDU equals the PDU's "
                       "fields (all bytes); rtr_update_pfx_table / rtr_update_spki_table apply exactly that record (announce = add, "
                       "withdraw = remove), and on duplicate / unknown withdrawal / invalid flags / table error change nothing and "
                       "request the right Error Report; the undo functions are the inverse table operations; buffering appends or "
                       "fails without effect. The composition (receive loop, apply/undo loops, reload, clean-up of "
                       "rtr_sync_receive_and_store_pdus) against 'all or nothing' is a bounded stand-in that runs in the THOROUGH tier "
                       "only (units store_*: payload shapes of 1-4 PDUs + any terminal event); CBMC needs tens of minutes to hours for it.",
        "trusted": ["tables replaced by the executable client reading of the C02/C10 contracts (env/ghost_tables.h)"],
        "assumptions": ["quick tier: the apply/undo loops themselves are not executed by any unit (defect in them was found by reading and "
                        "demonstrated natively, see known_findings.json)"],
    },
    "C06": {
        "level": "other",
        "explanation": "Sequential protocol only (contracts have no threads): pfx_table_swap exchanges exactly the roots and spki_table_swap exactly the hash table and the list, with both WRITE locks "
                       "held at every access and released on return (complete; roots are parked as junk outside critical sections so an "
                       "unlocked access breaks the postcondition); thorough tier: during a reload no add/remove reaches the live tables "
                       "before the swap and each table is swapped exactly once (units store_*). The interleaving argument (rwlock mutual "
                       "exclusion => a reader sees the old or the new set) is a paper lemma, not mechanised. Which table receives the records: unit store_choice runs the REAL control "
                       "flow of the payload phase (receive loop, End of Data, shadow set-up, choice of the update tables, apply loops with "
                       "roll-back, swap, clean-up) for one payload PDU of any type with receive, buffering, apply and undo replaced by "
                       "their contracts in client reading (bounded): in a reload every apply / undo call is handed the shadow table, "
                       "outside a reload the live table; exactly one swap per table on success. Whole responses with real apply code "
                       "(store_* payload shapes) and spki_table_copy_except_socket (spki_copy) are lab tier.",
        "trusted": ["pthread rwlock semantics"],
        "assumptions": ["no schedule is explored"],
    },
    "C09": {
        "level": "other",
        "explanation": "pfx_table_add / pfx_table_remove (complete for the glue code, callees by contract): exactly one 'added' / 'removed' "
                       "callback with the record after a successful operation, none on duplicate / not-found / failure, always after "
                       "the lock is released. pfx_table_free on every trie shape of 2 levels (bounded): one removal per stored record "
                       "with the record's OWN prefix and length, none missing or repeated. Refused PDUs change nothing (update_pfx). "
                       "Not covered in the registered tiers: removal by source (unit src_remove and the history unit pfx_hist exceed the "
                       "sandbox: lab tier), pfx_table_notify_diff, rollback and reload driven by cache responses (store_E covers only "
                       "the empty response, thorough).",
        "trusted": [],
        "assumptions": ["callee contracts of the composition units in client reading (see ASSUMED / PROVED list)"],
    },
    "C10": {
        "level": "other",
        "explanation": "key_entry_cmp = 0 exactly when AS, all 20 SKI bytes, all 91 key bytes and the source are equal; the record/entry "
                       "conversions copy every byte (complete, all inputs). The real walking loops on hand-built bucket chains / lists of at "
                       "most 3 entries whose AS, SKI, key and source are drawn from two-value pools incl. entries differing in the last "
                       "byte only (bounded): spki_table_get_all returns exactly the entries with that AS and SKI, "
                       "spki_table_search_by_ski exactly those with that SKI, each once, in order, byte for byte; "
                       "spki_table_src_remove unlinks, releases and reports exactly that source's entries and keeps the others in "
                       "order; spki_table_swap exchanges both containers completely under both write locks (complete). NOT decided by a "
                       "registered check: spki_table_add_entry / spki_table_remove_entry / spki_table_copy_except_socket as a whole (units "
                       "spki_add / spki_remove / spki_copy on the real inline tommy_hashlin_search do not finish here: lab tier), "
                       "notify_diff, and histories on the real tommyds hash table incl. its resize steps (spki_hist, lab tier).",
        "trusted": [],
        "assumptions": ["tommyds bucket contract: the bucket of a hash holds all entries with that hash and possibly others (every bucket of the "
                        "modelled table points to the one chain)", "tommy_hashlin_remove_existing returns the node's data (third-party, stubbed)",
                        "memcmp reads exactly the given lengths (own byte loop with one region check per call)"],
    },
    "C11": {
        "level": "other",
        "explanation": "Serialisation part only: align_byte_sequence / req_stream_size / get_sig_seg_size produce, for validation (the signature "
                       "under test is skipped) and for signing, exactly the byte sequence of RFC 8205 section 4.2 -- target AS, per hop "
                       "[SKI, length, signature,] pCount, flags, AS, then algorithm, AFI, SAFI, NLRI length, NLRI -- compared byte by byte "
                       "with an independent serialiser, and fill a stream of req_stream_size() bytes exactly (bounded: 1 hop quick, 1..2 "
                       "hops thorough, signatures <= 3 bytes, NLRI <= 32 bits). Hence every signed field is part of the digest. "
                       "NOT covered: key selection (SKI and AS), the per-hop offset arithmetic of rtr_bgpsec_validate_as_path, the error "
                       "codes, and everything behind OpenSSL (trusted).",
        "trusted": ["OpenSSL (ECDSA, SHA-256, key parsing): not modelled, not reached by the unit"],
        "assumptions": ["the validation loop itself is not under contract"],
    },
    "C12": {
        "level": "other",
        "explanation": "Serialisation part only (same unit as C11, align type SIGNING): the bytes hashed before signing are the RFC 8205 "
                       "section 4.1 sequence for the path so far, and the stream is filled exactly. NOT covered: rtr_bgpsec_generate_signature's "
                       "argument checks and error codes, key loading, ECDSA signing (OpenSSL trusted), the hop-by-hop lemma.",
        "trusted": ["OpenSSL: not modelled, not reached by the unit"],
        "assumptions": ["the signing function itself is not under contract"],
    },
    "C15": {
        "level": "other",
        "explanation": "One callback step of rtr_mgr_cb (real helpers, real tommy list) from an ARBITRARY manager state over the property's own "
                       "domain (1..3 groups in ascending preference order x 1..2 sockets, any statuses, socket states and time stamps): "
                       "ESTABLISHED only with every socket synchronised; becoming ESTABLISHED shuts down and reports CLOSED every "
                       "less-preferred open group and nobody else; ERROR with no group ESTABLISHED starts the most-preferred closed "
                       "group and no other. rtr_mgr_init rejects empty lists, empty groups and duplicate preferences, hands out no "
                       "configuration on failure, frees nothing invalid, and presents groups in ascending order, all CLOSED. Because "
                       "the pre-state is arbitrary the one-step claims extend to every event sequence. rtr_mgr_add_group / "
                       "rtr_mgr_remove_group are not under contract.",
        "trusted": ["libc qsort (insertion-sort stub for <= 3 elements), rtr_start / rtr_stop / rtr_init as logging stubs"],
        "assumptions": ["the list is sorted by preference without duplicates on entry to the callback (established by rtr_mgr_init, unit mgr_init)"],
    },
    "C16": {
        "level": "other",
        "explanation": "Lock protocol per function, sequentially: the table roots are only meaningful inside a critical section (lock stubs park "
                       "junk outside), so a read before the lock or after the unlock breaks the postcondition. Verified for "
                       "pfx_table_validate_r (one read section, released on every path; unbounded unit validate_v4), pfx_table_swap "
                       "(both write locks), pfx_table_add / pfx_table_remove (one write-locked section, callbacks after release). For the "
                       "router-key table the same parking (hash table and list are junk outside the lock) is applied to "
                       "spki_table_get_all, spki_table_search_by_ski (one read section) and spki_table_src_remove (one write section) on "
                       "chains of at most 3 entries; add / remove only in the lab tier. Data-race freedom and linearizability follow only with the rwlock semantics (paper "
                       "lemma); no interleaving is explored; pfx_table_for_each_* / pfx_table_free read the roots before locking "
                       "(seen by reading; the history unit that would show it runs in the thorough tier).",
        "trusted": ["pthread rwlock semantics"],
        "assumptions": ["no schedule is explored"],
    },
    "C18": {
        "level": "other",
        "explanation": "Failure containment as postconditions with an allocator that may fail at every call: element-array delete/append "
                       "(failed shrink restores, failed append changes nothing; any array length), rtr_store_prefix_pdu (buffer and index "
                       "untouched), rtr_mgr_init (no success without a configuration, nothing invalid freed), pfx_table_add / "
                       "pfx_table_remove (a failing callee yields PFX_ERROR without notification or root change), pfx_table_free (every "
                       "block released exactly once, bounded), router-key lookups (a failing realloc yields SPKI_ERROR with the lock released and "
                       "nothing foreign freed) and removal by source (exactly the removed entries are released, each once; bounded). Allocator "
                       "consistency (every block returned to the allocator it came from) is not decided by contracts; the mismatch in "
                       "spki_table_free was found by reading and fixed.",
        "trusted": [],
        "assumptions": ["tommy_hashlin_init and its grow step use allocation results unchecked (third-party; reported in DESIGN.md, not covered)"],
    },
    "C19": {
        "level": "other",
        "explanation": "Partial. lrtr_ipv6_addr_to_str for all 2^128 addresses refuses buffers shorter than INET6_ADDRSTRLEN and never writes "
                       "beyond INET6_ADDRSTRLEN bytes (sprintf replaced by an assumed length contract). lrtr_ipv6_str_to_addr on every "
                       "text of at most 5 (quick) / 12 (thorough) characters without '.': memory-safe and DETERMINISTIC (2-safety: two runs "
                       "with independent stack contents agree). Not decided: agreement with inet_pton, the round trip, the IPv4 pair.",
        "trusted": ["libc sprintf length contract"],
        "assumptions": ["embedded-IPv4 tails go through sscanf and are excluded"],
    },
    "C04": {
        "level": "other",
        "explanation": "Memory-safety, assertion, shift and overflow obligations plus postconditions of the receive path for ALL byte "
                       "contents: rtr_receive_pdu is verified against its contract for every content of the 3248-byte buffer, every "
                       "outcome of the transport reads and every socket version (complete, loop-free); tr_recv_all/tr_send_all for every "
                       "chunking by inductive loop contracts (unbounded); rtr_handle_error_pdu, the bit extractors and trie_lookup under "
                       "hostile-free but arbitrary field values. Level 'other': the consumers of a decoded prefix PDU "
                       "(rtr_sync_receive_and_store_pdus and the trie mutators under hostile length fields) are not yet under contract.",
        "note": "Reception is modelled zero-copy (bytes received = arbitrary prior content of the buffer). IPv6 trie path units run in the thorough tier only.",
        "trusted": ENV_TRUSTED + ["libc snprintf (assumed contract verif_fmt)"],
        "assumptions": ["a transport never returns 0 from recv/send (tcp and ssh transports map 0 to TR_CLOSED)"],
    },
    "C05": {
        "level": "other",
        "explanation": "Inductive invariant of the real rtr_fsm_start loop (base + step discharged): whenever no session is requested the "
                       "socket holds the session/serial of the last completed synchronisation; every Serial Query is asserted to carry "
                       "exactly them, every Reset Query to be sent exactly when no session is held; rtr_sync is verified against the "
                       "socket-level contract the state machine assumes (foreign-session Cache Response: refused, payload never "
                       "processed); query encodings are checked byte by byte; rtr_init/rtr_stop/purge establish 'request a session'. "
                       "Level 'other': the frame contract of rtr_sync_receive_and_store_pdus (serial = End-of-Data serial, session "
                       "untouched) is assumed, not yet proved on its body.",
        "trusted": ENV_TRUSTED,
        "assumptions": ["single-threaded reading of the socket (rtr_stop running concurrently is not modelled)",
                        "frame contract of rtr_sync_receive_and_store_pdus (contracts/sync.h) is assumed"],
    },
    "C07": {
        "level": "other",
        "explanation": "Second conjunct of the same loop invariant: a socket without time stamp holds no records and requests a session; at "
                       "every tr_open the stub asserts that no data is older than the expire interval; rtr_purge_outdated_records and "
                       "rtr_stop are verified against 'both tables purged for exactly this socket, fall back to Reset Query'; "
                       "rtr_handle_cache_response_pdu keeps the time stamp when a reload starts. Level 'other': the table purges are "
                       "the C02/C10 contracts in client reading (ghost), and 'a failed synchronisation never leaves more records' is "
                       "taken from the C03 contract.",
        "trusted": ENV_TRUSTED,
        "assumptions": ["the monotonic clock does not fail, does not run backwards and stays below 2^40 s (units fsm); purge itself is verified with a failing clock",
                        "no allocation failure while purging", "records of other sockets: covered by the src_remove contracts (C02/C10), not here"],
    },
    "C13": {
        "level": "other",
        "explanation": "rtr_receive_pdu (all inputs): the version is never raised, lowered only by a first PDU of a lower supported version "
                       "that is not an Error Report; every other foreign version is refused before its payload is read and answered with "
                       "an Unexpected-Protocol-Version report whose bytes are checked; End of Data accepted only as v0/12 or v1/24 bytes. "
                       "rtr_handle_error_pdu (all inputs): downgrade only for code 4 with a lower supported version, then FAST_RECONNECT. "
                       "rtr_sync (loop contract): hang-up downgrade only without session, one step, FAST_RECONNECT. State machine "
                       "invariant: version <= 1, first-PDU flag cleared at every connect. Level 'other' because "
                       "rtr_sync_receive_and_store_pdus is represented by an assumed frame contract.",
        "trusted": ENV_TRUSTED,
        "assumptions": ["frame contract of rtr_sync_receive_and_store_pdus is assumed"],
    },
    "C14": {
        "level": "other",
        "explanation": "Every send function is verified with the real conversion/assembly code inlined and the transport replaced by a "
                       "logging stub: Serial/Reset Query bytes equal the RFC 8210 encoding; Error Reports built by "
                       "rtr_send_error_pdu_from_host for every offender size a call site uses (0, 8, 12, 20, 24, 32, 123 bytes) are "
                       "well-formed (version, type, code, length = bytes sent <= 3248, nested lengths) and their encapsulated PDU is "
                       "byte for byte the offender AS RECEIVED (decode by the receive path, re-encode by the sender = identity); the "
                       "reports of rtr_receive_pdu echo the raw header; tr_send_all completes partial writes (loop contract). "
                       "Level 'other': call sites inside rtr_sync_receive_and_store_pdus are not yet checked against the sender's "
                       "precondition; 'no byte from uninitialised memory' is not decided.",
        "trusted": ENV_TRUSTED + ["libc snprintf (assumed contract verif_fmt), memcpy/strlen as modelled by CBMC"],
        "assumptions": [],
    },
    "C17": {
        "level": "other",
        "explanation": "rtr_check_interval_range, apply_interval_value, rtr_check_interval_option: for all 2^32 values x modes x kinds the "
                       "interval afterwards equals SPEC_INTERVAL (RFC 8210 section 6 ranges), other intervals untouched; rtr_init: "
                       "INVALID_PARAM iff some interval is outside its range; rtr_wait_for_sync: time-out = max(0, last_update + "
                       "refresh - now), success iff Serial Notify or time-out. All complete (loop-free). Level 'other': the call sites "
                       "in rtr_sync_receive_and_store_pdus (End of Data handling, version 0 exchanges) are not yet under contract.",
        "trusted": ENV_TRUSTED,
        "assumptions": [],
    },
    "C20": {
        "level": "proof",
        "explanation": "rtr_state_to_str and rtr_mgr_status_to_str are verified against the contract "
                       "'declared enumerator -> its name as spelled in the public header (table regenerated from "
                       "rtr.h / rtr_mgr.h on each run), anything else -> NULL, no access outside the table' for all "
                       "2^32 argument values (loop-free functions, complete).",
        "trusted": ["static name table socket_str_states keeps its initialiser (syntactic never-written check on every run)"],
        "assumptions": [],
    },
}


def U(**kw):
    kw.setdefault("props", [])
    kw.setdefault("enforce", [])
    kw.setdefault("replace", [])
    kw.setdefault("tier", "quick")
    kw.setdefault("kind", "complete")
    return kw


PKT_STUBS = ["tr_recv_all", "tr_send_all", "lrtr_dbg", "pthread_setcancelstate"]
PKT_LINK = ["rtrlib/lib/convert_byte_order.c", "rtrlib/lib/ipv4.c", "rtrlib/lib/ipv6.c", "rtrlib/lib/utils.c"]
IP_SRCS = ["rtrlib/lib/ip.c", "rtrlib/lib/ipv4.c", "rtrlib/lib/ipv6.c", "rtrlib/lib/utils.c"]

# loop contract of the while loop of trie_lookup, over the spine model (units/trie_spine.h)
LOOKUP_LOOP = dict(
    function="trie_lookup", fingerprint=r"while \(root\)",
    macro_headers=["spec/spec.h", "units/trie_spine_macros.h"],
    symbols=["root", "lvl", "prefix", "mask_len"], globals=["g_n", "g_nodes", "g_k", "g_q", "g_ql"],
    assigns="root, *lvl",
    invariants="""(*lvl >= __CPROVER_loop_entry(*lvl)) &&
                  (root == 0 ? (*lvl == g_n) : (*lvl < g_n && root == &g_nodes[*lvl])) &&
                  ((__CPROVER_loop_entry(*lvl) <= g_k && g_k < *lvl && g_k < g_n) ? !SP_COVERS(g_k) : 1)""",
    decreases="g_n - *lvl",
)

RECV_ALL_LOOP = dict(
    function="tr_recv_all", fingerprint=r"while \(total_recv < len\)", macro_headers=[],
    symbols=["total_recv", "len"], globals=["g_xfer_count", "g_xfer_ok", "g_xfer_len"],
    assigns="total_recv, g_xfer_count, g_xfer_ok",
    invariants="total_recv <= len && g_xfer_count == total_recv && g_xfer_ok && g_xfer_len == len",
    decreases="len - total_recv")
SEND_ALL_LOOP = dict(
    function="tr_send_all", fingerprint=r"while \(total_send < len\)", macro_headers=[],
    symbols=["total_send", "len"], globals=["g_xfer_count", "g_xfer_ok", "g_xfer_len"],
    assigns="total_send, g_xfer_count, g_xfer_ok",
    invariants="total_send <= len && g_xfer_count == total_send && g_xfer_ok && g_xfer_len == len",
    decreases="len - total_send")

SYNC_LOOP = dict(
    function="rtr_sync", fingerprint=r"while \(type == SERIAL_NOTIFY\)", macro_headers=[],
    symbols=["rtr_socket", "pdu", "type", "oldcancelstate"], globals=["g_env"],
    assigns="type, oldcancelstate, __CPROVER_object_whole(pdu), rtr_socket->version, rtr_socket->has_received_pdus, rtr_socket->state, __CPROVER_object_whole(&g_env)",
    invariants="rtr_socket->version <= __CPROVER_loop_entry(rtr_socket->version) && rtr_socket->version <= 1 && "
               "rtr_socket->state == __CPROVER_loop_entry(rtr_socket->state) && "
               "(rtr_socket->version < __CPROVER_loop_entry(rtr_socket->version) ? !__CPROVER_loop_entry(rtr_socket->has_received_pdus) : 1) && "
               "(__CPROVER_loop_entry(rtr_socket->has_received_pdus) ? rtr_socket->has_received_pdus : 1)")

FSM_INV_TEXT = ("(rtr_socket->version <= 1 && (!rtr_socket->request_session_id ? (g_f.have && rtr_socket->session_id == g_f.sess && rtr_socket->serial_number == g_f.serial) : 1) && "
                "(rtr_socket->last_update == 0 ? (!g_f.has_data && rtr_socket->request_session_id) : 1) && "
                "(rtr_socket->state == 1 ? !rtr_socket->request_session_id : 1) && (rtr_socket->state == 2 ? rtr_socket->request_session_id : 1) && rtr_socket->last_update <= g_f.now && "
                "g_f.now > 0 && g_f.now < 1099511627776l && rtr_socket->last_update >= 0 && rtr_socket == &g_sock)")
FSM_LOOP = dict(
    function="rtr_fsm_start", fingerprint=r"while \(1\)", macro_headers=[],
    symbols=["rtr_socket", "oldcancelstate"], globals=["g_f", "g_sock"],
    assigns="oldcancelstate, rtr_socket->state, rtr_socket->has_received_pdus, rtr_socket->request_session_id, rtr_socket->serial_number, "
            "rtr_socket->session_id, rtr_socket->last_update, rtr_socket->is_resetting, rtr_socket->version, rtr_socket->refresh_interval, "
            "rtr_socket->expire_interval, rtr_socket->retry_interval, __CPROVER_object_whole(&g_f)",
    invariants=FSM_INV_TEXT)

VALIDATE_LOOP = dict(
    function="pfx_table_validate_r", fingerprint=r"while \(!pfx_table_elem_matches", macro_headers=["spec/spec.h", "units/trie_spine_macros.h"],
    symbols=["node", "lvl", "prefix", "prefix_len", "asn", "reason", "reason_len"], globals=["g_n", "g_nodes", "g_k", "g_q", "g_ql", "g_match", "g_data"],
    assigns="node, lvl",
    invariants="""(node != 0 && lvl < g_n && node == &g_nodes[lvl] && SP_COVERS(lvl) && reason == 0 && reason_len == 0 &&
                  ((g_k < lvl && g_k < g_n && SP_COVERS(g_k)) ? !g_match[g_k] : 1))""",
    decreases="g_n - lvl")

FIND_LOOP = dict(function="pfx_table_find_elem", fingerprint=r"for \(unsigned int i = 0; i < data->len; i\+\+\)", macro_headers=[],
                 symbols=["i", "data", "record", "index"], globals=["g_nd", "g_i", "g_r"], assigns="i",
                 invariants="i <= g_nd.len && data == &g_nd && record == &g_r && ((g_i < i) ? !(g_nd.ary[g_i].asn == g_r.asn && g_nd.ary[g_i].max_len == g_r.max_len && g_nd.ary[g_i].socket == g_r.socket) : 1)",
                 decreases="g_nd.len - i")
MATCH_LOOP = dict(function="pfx_table_elem_matches", fingerprint=r"for \(unsigned int i = 0; i < data->len; i\+\+\)", macro_headers=[],
                  symbols=["i", "data", "asn", "prefix_len"], globals=["g_nd", "g_i"], assigns="i",
                  invariants="i <= g_nd.len && data == &g_nd && ((g_i < i) ? !(g_nd.ary[g_i].asn != 0 && g_nd.ary[g_i].asn == asn && prefix_len <= g_nd.ary[g_i].max_len) : 1)",
                  decreases="g_nd.len - i")
DEL_LOOP = dict(function="pfx_table_del_elem", fingerprint=r"for \(unsigned int i = index; i < data->len - 1; i\+\+\)", macro_headers=[],
                symbols=["i", "data", "index"], globals=["g_nd", "g_i", "g_og", "g_og1"], assigns="i, __CPROVER_object_whole(g_nd.ary)",
                invariants="data == &g_nd && index <= i && i <= g_nd.len - 1 && (!(g_i < 100000 && g_i + 1 < g_nd.len) || ("
                           "((g_i < index || g_i >= i) ? (g_nd.ary[g_i].asn == g_og.asn && g_nd.ary[g_i].max_len == g_og.max_len && g_nd.ary[g_i].socket == g_og.socket) "
                           ": (g_nd.ary[g_i].asn == g_og1.asn && g_nd.ary[g_i].max_len == g_og1.max_len && g_nd.ary[g_i].socket == g_og1.socket)) && "
                           "((g_i + 1 >= i) ? (g_nd.ary[g_i + 1].asn == g_og1.asn && g_nd.ary[g_i + 1].max_len == g_og1.max_len && g_nd.ary[g_i + 1].socket == g_og1.socket) : 1)))",
                decreases="g_nd.len - 1 - i")

EXACT_LOOP = dict(
    function="trie_lookup_exact", fingerprint=r"while \(root_node\)", macro_headers=["spec/spec.h", "units/trie_spine_macros.h"],
    symbols=["root_node", "lvl", "prefix", "mask_len", "found"], globals=["g_n", "g_nodes", "g_k", "g_q", "g_ql"],
    assigns="root_node, *lvl",
    invariants="""(root_node != 0 && *lvl < g_n && root_node == &g_nodes[*lvl] && !*found &&
                  ((g_k < *lvl) ? !(g_nodes[g_k].len == g_ql && SP_ADDR_EQ(g_nodes[g_k].prefix, g_q)) : 1) &&
                  ((g_k >= 1 && g_k < *lvl && g_k < g_n) ? (g_nodes[g_k].len <= g_ql) : 1))""",
    decreases="g_n - *lvl")

UNITS = [
    U(id="lookup_exact_v4", props=["C02"], file="units/trie_lookup_exact.c", entry="h_lookup_exact", defines=["STUB_IP"],
      enforce=["trie_lookup_exact"], loops=[EXACT_LOOP], kind="unbounded", need_classes=["postcondition", "loop_invariant_step"],
      native=None, timeout=1800, object_bits=6, stubs=["lrtr_ip_addr_get_bits", "lrtr_ip_addr_is_zero", "lrtr_ip_addr_equal"]),
    # ------------------------------------------------------------------ element arrays (C02, C01, C18)
    U(id="find_elem", props=["C02"], file="units/elems.c", entry="h_find_elem", defines=["H_ENTRY=h_find_elem"], enforce=["pfx_table_find_elem"],
      loops=[FIND_LOOP], kind="unbounded", need_classes=["postcondition", "loop_invariant_step"], native={"only": ["rtrlib/pfx/trie/trie.c", "rtrlib/lib/ip.c", "rtrlib/lib/ipv4.c", "rtrlib/lib/ipv6.c", "rtrlib/lib/utils.c", "rtrlib/lib/convert_byte_order.c"], "libs": ["-lpthread", "-lrt"]}, stubs=["lrtr_realloc", "lrtr_free"]),
    U(id="elem_nomatch", props=["C01"], file="units/elems.c", entry="h_elem_nomatch", defines=["H_ENTRY=h_elem_nomatch"], enforce=["pfx_table_elem_matches"],
      loops=[MATCH_LOOP], kind="unbounded", need_classes=["postcondition", "loop_invariant_step"], native={"only": ["rtrlib/pfx/trie/trie.c", "rtrlib/lib/ip.c", "rtrlib/lib/ipv4.c", "rtrlib/lib/ipv6.c", "rtrlib/lib/utils.c", "rtrlib/lib/convert_byte_order.c"], "libs": ["-lpthread", "-lrt"]}, stubs=["lrtr_realloc", "lrtr_free"]),
    U(id="elem_match", props=["C01"], file="units/elems.c", entry="h_elem_match", defines=["H_ENTRY=h_elem_match"], enforce=[], plain=True,
      checked_by_assertions=["pfx_table_elem_matches"], need_classes=["assertion"], kind="bounded: at most 4 records per prefix", bound=6,
      cbmc_flags=["--sat-solver", "cadical"],
      native={"only": ["rtrlib/pfx/trie/trie.c", "rtrlib/lib/ip.c", "rtrlib/lib/ipv4.c", "rtrlib/lib/ipv6.c", "rtrlib/lib/utils.c", "rtrlib/lib/convert_byte_order.c"], "libs": ["-lpthread", "-lrt"]}, allow_undefined=True, stubs=["lrtr_realloc", "lrtr_free"]),
    U(id="del_elem", props=["C02", "C18"], file="units/elems.c", entry="h_del_elem", defines=["H_ENTRY=h_del_elem"], enforce=["pfx_table_del_elem"],
      loops=[DEL_LOOP], kind="unbounded", need_classes=["postcondition", "loop_invariant_step"], native={"only": ["rtrlib/pfx/trie/trie.c", "rtrlib/lib/ip.c", "rtrlib/lib/ipv4.c", "rtrlib/lib/ipv6.c", "rtrlib/lib/utils.c", "rtrlib/lib/convert_byte_order.c"], "libs": ["-lpthread", "-lrt"]}, stubs=["lrtr_realloc", "lrtr_free"]),
    U(id="append_elem", props=["C02", "C18"], file="units/elems.c", entry="h_append_elem", defines=["H_ENTRY=h_append_elem"], enforce=["pfx_table_append_elem"],
      kind="complete", native={"only": ["rtrlib/pfx/trie/trie.c", "rtrlib/lib/ip.c", "rtrlib/lib/ipv4.c", "rtrlib/lib/ipv6.c", "rtrlib/lib/utils.c", "rtrlib/lib/convert_byte_order.c"], "libs": ["-lpthread", "-lrt"]}, stubs=["lrtr_realloc", "lrtr_free"]),
    # ------------------------------------------------------------------ state machine (C05, C07, C13)
    U(id="fsm", props=["C05", "C07", "C13"], file="units/fsm.c", entry="h_fsm", enforce=["rtr_fsm_start"],
      loops=[FSM_LOOP], kind="unbounded", need_classes=["loop_invariant_base", "loop_invariant_step", "assertion"], native=None,
      stubs=["rtr_sync", "rtr_send_serial_query", "rtr_send_reset_query", "rtr_wait_for_sync", "rtr_change_socket_state",
             "tr_open", "tr_close", "pfx_table_src_remove", "spki_table_src_remove", "lrtr_get_monotonic_time", "sleep",
             "pthread_setcancelstate", "pthread_exit", "lrtr_dbg"]),
    # ------------------------------------------------------------------ send side (C05, C14)
    U(id="change_state", props=["C05", "C15"], file="units/send.c", entry="h_change_state", defines=["H_ENTRY=h_change_state"],
      enforce=["rtr_change_socket_state"], kind="complete", native=None, link=PKT_LINK, stubs=PKT_STUBS),
    U(id="serial_query", props=["C05", "C14"], file="units/send.c", entry="h_serial_query", defines=["H_ENTRY=h_serial_query"],
      enforce=["rtr_send_serial_query"], kind="complete", native=None, link=PKT_LINK, stubs=PKT_STUBS),
    U(id="reset_query", props=["C05", "C14"], file="units/send.c", entry="h_reset_query", defines=["H_ENTRY=h_reset_query"],
      enforce=["rtr_send_reset_query"], kind="complete", native=None, link=PKT_LINK, stubs=PKT_STUBS),
    U(id="error_report_0_16", props=["C14"], file="units/send.c", entry="h_error_report",
      defines=["H_ENTRY=h_error_report", "ENC=0", "TXT=16"], enforce=["rtr_send_error_pdu_from_host"], kind="complete",
      native=None, link=PKT_LINK, stubs=PKT_STUBS),
    U(id="error_report_8_48", props=["C14"], file="units/send.c", entry="h_error_report",
      defines=["H_ENTRY=h_error_report", "ENC=8", "TXT=48"], enforce=["rtr_send_error_pdu_from_host"], kind="complete",
      native=None, link=PKT_LINK, stubs=PKT_STUBS),
    U(id="error_report_12_67", props=["C14"], file="units/send.c", entry="h_error_report",
      defines=["H_ENTRY=h_error_report", "ENC=12", "TXT=67"], enforce=["rtr_send_error_pdu_from_host"], kind="complete",
      native=None, link=PKT_LINK, stubs=PKT_STUBS),
    U(id="error_report_20_0", props=["C14"], file="units/send.c", entry="h_error_report",
      defines=["H_ENTRY=h_error_report", "ENC=20", "TXT=0"], enforce=["rtr_send_error_pdu_from_host"], kind="complete",
      native=None, link=PKT_LINK, stubs=PKT_STUBS),
    U(id="error_report_20_45", props=["C14"], file="units/send.c", entry="h_error_report",
      defines=["H_ENTRY=h_error_report", "ENC=20", "TXT=45"], enforce=["rtr_send_error_pdu_from_host"], kind="complete",
      native=None, link=PKT_LINK, stubs=PKT_STUBS),
    U(id="error_report_24_67", props=["C14"], file="units/send.c", entry="h_error_report",
      defines=["H_ENTRY=h_error_report", "ENC=24", "TXT=67"], enforce=["rtr_send_error_pdu_from_host"], kind="complete",
      native=None, link=PKT_LINK, stubs=PKT_STUBS),
    U(id="error_report_32_0", props=["C14"], file="units/send.c", entry="h_error_report",
      defines=["H_ENTRY=h_error_report", "ENC=32", "TXT=0"], enforce=["rtr_send_error_pdu_from_host"], kind="complete",
      native=None, link=PKT_LINK, stubs=PKT_STUBS),
    U(id="error_report_123_0", props=["C14"], file="units/send.c", entry="h_error_report",
      defines=["H_ENTRY=h_error_report", "ENC=123", "TXT=0"], enforce=["rtr_send_error_pdu_from_host"], kind="complete",
      native=None, link=PKT_LINK, stubs=PKT_STUBS),
    U(id="error_report_123_49", props=["C14"], file="units/send.c", entry="h_error_report",
      defines=["H_ENTRY=h_error_report", "ENC=123", "TXT=49"], enforce=["rtr_send_error_pdu_from_host"], kind="complete",
      native=None, link=PKT_LINK, stubs=PKT_STUBS),
    U(id="wait_for_sync", props=["C17", "C13"], file="units/wait.c", entry="h_wait", enforce=["rtr_wait_for_sync"],
      replace=["rtr_receive_pdu/rtr_receive_pdu__wait"], kind="complete", native=None, link=PKT_LINK,
      stubs=PKT_STUBS + ["lrtr_get_monotonic_time"]),
    U(id="purge", props=["C07", "C05"], file="units/purge_stop.c", entry="h_purge", defines=["H_ENTRY=h_purge"],
      enforce=["rtr_purge_outdated_records"], kind="complete", native=None,
      stubs=["pfx_table_src_remove", "spki_table_src_remove", "lrtr_get_monotonic_time", "rtr_change_socket_state", "tr_close", "pthread_cancel", "pthread_join", "lrtr_dbg"]),
    U(id="stop", props=["C07", "C05"], file="units/purge_stop.c", entry="h_stop", defines=["H_ENTRY=h_stop"],
      enforce=["rtr_stop"], kind="complete", native=None,
      stubs=["pfx_table_src_remove", "spki_table_src_remove", "lrtr_get_monotonic_time", "rtr_change_socket_state", "tr_close", "pthread_cancel", "pthread_join", "lrtr_dbg"]),
    # ------------------------------------------------------------------ receive path (C04, C13, C14)
    U(id="receive_pdu", props=["C04", "C13", "C14"], file="units/receive.c", entry="h_receive_pdu",
      enforce=["rtr_receive_pdu"], kind="complete", native=None, timeout=1800, link=PKT_LINK, replace=["verif_fmt"],
      cbmc_flags=["--sat-solver", "cadical"],
      stubs=["tr_recv_all", "tr_send_all", "lrtr_dbg", "pthread_setcancelstate"]),
    # ------------------------------------------------------------------ payload phase (C03 and clauses of C05 C06 C13 C14 C17)
    U(id="store_Eq", props=["C03", "C05", "C06", "C13", "C17"], file="units/store.c", entry="h_store", tier="quick",
      enforce=[], checked_by_assertions=["rtr_sync_receive_and_store_pdus"], need_classes=["assertion", "precondition"],
      replace=["rtr_receive_pdu/rtr_receive_pdu__store", "rtr_send_error_pdu_from_host", "rtr_handle_error_pdu/rtr_handle_error_pdu__client", "verif_fmt"],
      kind="bounded: the empty response (terminal event only: any PDU the receive contract can deliver or any transport outcome)",
      defines=["STORE_EMPTY", "STORE_RECV_CONTRACT"], unwind_functions={"rtr_sync_receive_and_store_pdus": 2, "strlen": 70},
      native=None, link=PKT_LINK, timeout=2400, object_bits=10, mem_gb=40,
      stubs=["lrtr_malloc", "lrtr_realloc", "lrtr_free", "pfx_table_*", "spki_table_*", "lrtr_dbg", "pthread_setcancelstate"]),
    U(id="store_9q", props=["C03", "C06"], file="units/store.c", entry="h_store", tier="lab",
      enforce=[], checked_by_assertions=["rtr_sync_receive_and_store_pdus"], need_classes=["assertion", "precondition"],
      replace=["rtr_receive_pdu/rtr_receive_pdu__store", "rtr_send_error_pdu_from_host", "rtr_handle_error_pdu/rtr_handle_error_pdu__client", "verif_fmt"],
      kind="bounded: one Router Key PDU (any content the receive contract can deliver) + terminal event",
      defines=["STORE_SHAPE=9", "STORE_RECV_CONTRACT", "STORE_TERM_EOD"], unwind_functions={"rtr_sync_receive_and_store_pdus": 3, "strlen": 70},
      native=None, link=PKT_LINK, timeout=2400, object_bits=12, mem_gb=40,
      stubs=["lrtr_malloc", "lrtr_realloc", "lrtr_free", "pfx_table_*", "spki_table_*", "lrtr_dbg", "pthread_setcancelstate"]),
    U(id="store_choice", props=["C06"], file="units/store.c", entry="h_store", tier="quick",
      enforce=[], checked_by_assertions=["rtr_sync_receive_and_store_pdus"], need_classes=["assertion", "precondition"],
      replace=["rtr_receive_pdu/rtr_receive_pdu__store", "rtr_send_error_pdu_from_host", "rtr_handle_error_pdu/rtr_handle_error_pdu__client", "verif_fmt",
               "rtr_store_prefix_pdu/rtr_store_prefix_pdu__choice", "rtr_store_router_key_pdu/rtr_store_router_key_pdu__choice",
               "rtr_update_pfx_table/rtr_update_pfx_table__choice", "rtr_undo_update_pfx_table/rtr_undo_update_pfx_table__choice",
               "rtr_update_spki_table/rtr_update_spki_table__choice", "rtr_undo_update_spki_table/rtr_undo_update_spki_table__choice"],
      kind="bounded: one payload PDU of any type (IPv4 / IPv6 prefix or router key) + terminal event; buffering, apply and undo by contract",
      defines=["STORE_SHAPE=4", "STORE_RECV_CONTRACT", "STORE_CHOICE"], unwindset={"rtr_sync_receive_and_store_pdus.%d" % i: 2 for i in range(9)}, unwind_functions={"rtr_sync_receive_and_store_pdus": 3, "strlen": 70},
      native=None, link=PKT_LINK, timeout=2400, object_bits=13, mem_gb=40,
      stubs=["lrtr_malloc", "lrtr_realloc", "lrtr_free", "pfx_table_*", "spki_table_*", "lrtr_dbg", "pthread_setcancelstate"]),
    U(id="store_choice2", props=["C06"], file="units/store.c", entry="h_store", tier="lab",
      enforce=[], checked_by_assertions=["rtr_sync_receive_and_store_pdus"], need_classes=["assertion", "precondition"],
      replace=["rtr_receive_pdu/rtr_receive_pdu__store", "rtr_send_error_pdu_from_host", "rtr_handle_error_pdu/rtr_handle_error_pdu__client", "verif_fmt",
               "rtr_store_prefix_pdu/rtr_store_prefix_pdu__choice", "rtr_store_router_key_pdu/rtr_store_router_key_pdu__choice",
               "rtr_update_pfx_table/rtr_update_pfx_table__choice", "rtr_undo_update_pfx_table/rtr_undo_update_pfx_table__choice",
               "rtr_update_spki_table/rtr_update_spki_table__choice", "rtr_undo_update_spki_table/rtr_undo_update_spki_table__choice"],
      kind="bounded: two payload PDUs of any types (IPv4 / IPv6 prefix or router key) + terminal event; buffering, apply and undo by contract",
      defines=["STORE_SHAPE=4,4", "STORE_RECV_CONTRACT", "STORE_CHOICE"], unwindset={"rtr_sync_receive_and_store_pdus.%d" % i: 3 for i in range(9)}, unwind_functions={"rtr_sync_receive_and_store_pdus": 4, "strlen": 70},
      native=None, link=PKT_LINK, timeout=2400, object_bits=13, mem_gb=40,
      stubs=["lrtr_malloc", "lrtr_realloc", "lrtr_free", "pfx_table_*", "spki_table_*", "lrtr_dbg", "pthread_setcancelstate"]),
    U(id="store_E", props=["C03", "C05", "C06", "C13", "C14", "C17"], file="units/store.c", entry="h_store", tier="thorough",
      enforce=[], plain=True, remove_bodies=["rtr_send_error_pdu_from_host"], allow_undefined=True, checked_by_assertions=["rtr_sync_receive_and_store_pdus", "rtr_receive_pdu", "rtr_update_pfx_table", "rtr_undo_update_pfx_table",
                                         "rtr_update_spki_table", "rtr_undo_update_spki_table", "rtr_store_prefix_pdu", "rtr_store_router_key_pdu"], need_classes=["assertion"],
      
      kind="bounded: response of payload shape [] (terminal event only) + any terminal event", defines=["STORE_EMPTY", "VERIF_FMT_BODY", "STORE_TERM_EOD"],
      unwind_functions={"rtr_sync_receive_and_store_pdus": 2, "strlen": 70},
      native=None, link=PKT_LINK, timeout=14000, object_bits=12, mem_gb=40,
      stubs=["lrtr_malloc", "lrtr_realloc", "lrtr_free", "pfx_table_*", "spki_table_*", "lrtr_dbg", "pthread_setcancelstate"]),
    U(id="store_4", props=["C03", "C05", "C06", "C13", "C14", "C17"], file="units/store.c", entry="h_store", tier="lab",
      enforce=[], checked_by_assertions=["rtr_sync_receive_and_store_pdus", "rtr_receive_pdu", "rtr_update_pfx_table", "rtr_undo_update_pfx_table",
                                         "rtr_update_spki_table", "rtr_undo_update_spki_table", "rtr_store_prefix_pdu", "rtr_store_router_key_pdu"], need_classes=["assertion"],
      replace=["verif_fmt", "rtr_send_error_pdu_from_host"],
      kind="bounded: response of payload shape [4] + any terminal event", defines=["STORE_SHAPE=4"],
      unwind_functions={"rtr_sync_receive_and_store_pdus": 3, "strlen": 70},
      native=None, link=PKT_LINK, timeout=14000, object_bits=12, mem_gb=40,
      stubs=["lrtr_malloc", "lrtr_realloc", "lrtr_free", "pfx_table_*", "spki_table_*", "lrtr_dbg", "pthread_setcancelstate"]),
    U(id="store_44", props=["C03", "C05", "C06", "C13", "C14", "C17"], file="units/store.c", entry="h_store", tier="lab",
      enforce=[], checked_by_assertions=["rtr_sync_receive_and_store_pdus", "rtr_receive_pdu", "rtr_update_pfx_table", "rtr_undo_update_pfx_table",
                                         "rtr_update_spki_table", "rtr_undo_update_spki_table", "rtr_store_prefix_pdu", "rtr_store_router_key_pdu"], need_classes=["assertion"],
      replace=["verif_fmt", "rtr_send_error_pdu_from_host"],
      kind="bounded: response of payload shape [4, 4] + any terminal event", defines=["STORE_SHAPE=4,4"],
      unwind_functions={"rtr_sync_receive_and_store_pdus": 4, "strlen": 70},
      native=None, link=PKT_LINK, timeout=14000, object_bits=12, mem_gb=40,
      stubs=["lrtr_malloc", "lrtr_realloc", "lrtr_free", "pfx_table_*", "spki_table_*", "lrtr_dbg", "pthread_setcancelstate"]),
    U(id="store_4446", props=["C03", "C05", "C06", "C13", "C14", "C17"], file="units/store.c", entry="h_store", tier="lab",
      enforce=[], checked_by_assertions=["rtr_sync_receive_and_store_pdus", "rtr_receive_pdu", "rtr_update_pfx_table", "rtr_undo_update_pfx_table",
                                         "rtr_update_spki_table", "rtr_undo_update_spki_table", "rtr_store_prefix_pdu", "rtr_store_router_key_pdu"], need_classes=["assertion"],
      replace=["verif_fmt", "rtr_send_error_pdu_from_host"],
      kind="bounded: response of payload shape [4, 4, 4, 6] + any terminal event", defines=["STORE_SHAPE=4,4,4,6"],
      unwind_functions={"rtr_sync_receive_and_store_pdus": 6, "strlen": 70},
      native=None, link=PKT_LINK, timeout=14000, object_bits=12, mem_gb=40,
      stubs=["lrtr_malloc", "lrtr_realloc", "lrtr_free", "pfx_table_*", "spki_table_*", "lrtr_dbg", "pthread_setcancelstate"]),
    U(id="store_669", props=["C03", "C05", "C06", "C13", "C14", "C17"], file="units/store.c", entry="h_store", tier="lab",
      enforce=[], checked_by_assertions=["rtr_sync_receive_and_store_pdus", "rtr_receive_pdu", "rtr_update_pfx_table", "rtr_undo_update_pfx_table",
                                         "rtr_update_spki_table", "rtr_undo_update_spki_table", "rtr_store_prefix_pdu", "rtr_store_router_key_pdu"], need_classes=["assertion"],
      replace=["verif_fmt", "rtr_send_error_pdu_from_host"],
      kind="bounded: response of payload shape [6, 6, 9] + any terminal event", defines=["STORE_SHAPE=6,6,9"],
      unwind_functions={"rtr_sync_receive_and_store_pdus": 5, "strlen": 70},
      native=None, link=PKT_LINK, timeout=14000, object_bits=12, mem_gb=40,
      stubs=["lrtr_malloc", "lrtr_realloc", "lrtr_free", "pfx_table_*", "spki_table_*", "lrtr_dbg", "pthread_setcancelstate"]),
    U(id="store_49", props=["C03", "C05", "C06", "C13", "C14", "C17"], file="units/store.c", entry="h_store", tier="lab",
      enforce=[], checked_by_assertions=["rtr_sync_receive_and_store_pdus", "rtr_receive_pdu", "rtr_update_pfx_table", "rtr_undo_update_pfx_table",
                                         "rtr_update_spki_table", "rtr_undo_update_spki_table", "rtr_store_prefix_pdu", "rtr_store_router_key_pdu"], need_classes=["assertion"],
      replace=["verif_fmt", "rtr_send_error_pdu_from_host"],
      kind="bounded: response of payload shape [4, 9] + any terminal event", defines=["STORE_SHAPE=4,9"],
      unwind_functions={"rtr_sync_receive_and_store_pdus": 4, "strlen": 70},
      native=None, link=PKT_LINK, timeout=14000, object_bits=12, mem_gb=40,
      stubs=["lrtr_malloc", "lrtr_realloc", "lrtr_free", "pfx_table_*", "spki_table_*", "lrtr_dbg", "pthread_setcancelstate"]),
    U(id="store_4444", props=["C03", "C05", "C06", "C13", "C14", "C17"], file="units/store.c", entry="h_store", tier="lab",
      enforce=[], checked_by_assertions=["rtr_sync_receive_and_store_pdus", "rtr_receive_pdu", "rtr_update_pfx_table", "rtr_undo_update_pfx_table",
                                         "rtr_update_spki_table", "rtr_undo_update_spki_table", "rtr_store_prefix_pdu", "rtr_store_router_key_pdu"], need_classes=["assertion"],
      replace=["verif_fmt", "rtr_send_error_pdu_from_host"],
      kind="bounded: response of payload shape [4, 4, 4, 4] + any terminal event", defines=["STORE_SHAPE=4,4,4,4"],
      unwind_functions={"rtr_sync_receive_and_store_pdus": 6, "strlen": 70},
      native=None, link=PKT_LINK, timeout=14000, object_bits=12, mem_gb=40,
      stubs=["lrtr_malloc", "lrtr_realloc", "lrtr_free", "pfx_table_*", "spki_table_*", "lrtr_dbg", "pthread_setcancelstate"]),
    U(id="store_4469", props=["C03", "C05", "C06", "C13", "C14", "C17"], file="units/store.c", entry="h_store", tier="lab",
      enforce=[], checked_by_assertions=["rtr_sync_receive_and_store_pdus", "rtr_receive_pdu", "rtr_update_pfx_table", "rtr_undo_update_pfx_table",
                                         "rtr_update_spki_table", "rtr_undo_update_spki_table", "rtr_store_prefix_pdu", "rtr_store_router_key_pdu"], need_classes=["assertion"],
      replace=["verif_fmt", "rtr_send_error_pdu_from_host"],
      kind="bounded: response of payload shape [4, 4, 6, 9] + any terminal event", defines=["STORE_SHAPE=4,4,6,9"],
      unwind_functions={"rtr_sync_receive_and_store_pdus": 6, "strlen": 70},
      native=None, link=PKT_LINK, timeout=14000, object_bits=12, mem_gb=40,
      stubs=["lrtr_malloc", "lrtr_realloc", "lrtr_free", "pfx_table_*", "spki_table_*", "lrtr_dbg", "pthread_setcancelstate"]),
    U(id="store_06", props=["C03", "C05", "C06", "C13", "C14", "C17"], file="units/store.c", entry="h_store", tier="lab",
      enforce=[], checked_by_assertions=["rtr_sync_receive_and_store_pdus", "rtr_receive_pdu", "rtr_update_pfx_table", "rtr_undo_update_pfx_table",
                                         "rtr_update_spki_table", "rtr_undo_update_spki_table", "rtr_store_prefix_pdu", "rtr_store_router_key_pdu"], need_classes=["assertion"],
      replace=["verif_fmt", "rtr_send_error_pdu_from_host"],
      kind="bounded: response of payload shape [0, 6] + any terminal event", defines=["STORE_SHAPE=0,6"],
      unwind_functions={"rtr_sync_receive_and_store_pdus": 4, "strlen": 70},
      native=None, link=PKT_LINK, timeout=14000, object_bits=12, mem_gb=40,
      stubs=["lrtr_malloc", "lrtr_realloc", "lrtr_free", "pfx_table_*", "spki_table_*", "lrtr_dbg", "pthread_setcancelstate"]),
    # ------------------------------------------------------------------ payload phase, modular pieces (C03, C14)
    U(id="pdu2rec_pfx", props=['C03'], file="units/apply.c", entry="h_pdu2rec_pfx", defines=["H_ENTRY=h_pdu2rec_pfx"], enforce=[],
      checked_by_assertions=["rtr_prefix_pdu_2_pfx_record"], need_classes=["assertion"], replace=["rtr_send_error_pdu_from_host", "verif_fmt"],
      kind="complete", native=None, link=PKT_LINK, stubs=PKT_STUBS + ["pfx_table_*", "spki_table_*", "lrtr_realloc"]),
    U(id="pdu2rec_key", props=['C03'], file="units/apply.c", entry="h_pdu2rec_key", defines=["H_ENTRY=h_pdu2rec_key"], enforce=[],
      checked_by_assertions=["rtr_key_pdu_2_spki_record"], need_classes=["assertion"], replace=["rtr_send_error_pdu_from_host", "verif_fmt"],
      kind="complete", native=None, link=PKT_LINK, stubs=PKT_STUBS + ["pfx_table_*", "spki_table_*", "lrtr_realloc"]),
    U(id="update_pfx", props=['C03', 'C14', 'C09'], file="units/apply.c", entry="h_update_pfx", defines=["H_ENTRY=h_update_pfx"], enforce=[],
      checked_by_assertions=["rtr_update_pfx_table"], need_classes=["assertion"], replace=["rtr_send_error_pdu_from_host", "verif_fmt"],
      kind="complete", native=None, link=PKT_LINK, stubs=PKT_STUBS + ["pfx_table_*", "spki_table_*", "lrtr_realloc"]),
    U(id="undo_pfx", props=['C03'], file="units/apply.c", entry="h_undo_pfx", defines=["H_ENTRY=h_undo_pfx"], enforce=[],
      checked_by_assertions=["rtr_undo_update_pfx_table"], need_classes=["assertion"], replace=["rtr_send_error_pdu_from_host", "verif_fmt"],
      kind="complete", native=None, link=PKT_LINK, stubs=PKT_STUBS + ["pfx_table_*", "spki_table_*", "lrtr_realloc"]),
    U(id="update_key", props=['C03', 'C14'], file="units/apply.c", entry="h_update_key", defines=["H_ENTRY=h_update_key"], enforce=[],
      checked_by_assertions=["rtr_update_spki_table"], need_classes=["assertion"], replace=["rtr_send_error_pdu_from_host", "verif_fmt"],
      kind="complete", native=None, link=PKT_LINK, stubs=PKT_STUBS + ["pfx_table_*", "spki_table_*", "lrtr_realloc"]),
    U(id="undo_key", props=['C03'], file="units/apply.c", entry="h_undo_key", defines=["H_ENTRY=h_undo_key"], enforce=[],
      checked_by_assertions=["rtr_undo_update_spki_table"], need_classes=["assertion"], replace=["rtr_send_error_pdu_from_host", "verif_fmt"],
      kind="complete", native=None, link=PKT_LINK, stubs=PKT_STUBS + ["pfx_table_*", "spki_table_*", "lrtr_realloc"]),
    U(id="store_pfx", props=['C03', 'C18', 'C14'], file="units/apply.c", entry="h_store_pfx", defines=["H_ENTRY=h_store_pfx"], enforce=[],
      checked_by_assertions=["rtr_store_prefix_pdu"], need_classes=["assertion"], replace=["rtr_send_error_pdu_from_host", "verif_fmt"],
      kind="complete", native=None, link=PKT_LINK, stubs=PKT_STUBS + ["pfx_table_*", "spki_table_*", "lrtr_realloc"]),
    # ------------------------------------------------------------------ synchronisation layer (C05, C07, C13)
    U(id="cache_response", props=["C05", "C07", "C14"], file="units/sync.c", entry="h_cache_response", defines=["H_ENTRY=h_cache_response"],
      enforce=["rtr_handle_cache_response_pdu"], replace=["rtr_send_error_pdu_from_host"], kind="complete", native=None,
      stubs=["lrtr_dbg", "lrtr_get_monotonic_time"]),
    U(id="error_pdu", props=["C13", "C04"], file="units/sync.c", entry="h_error_pdu", defines=["H_ENTRY=h_error_pdu"],
      enforce=["rtr_handle_error_pdu"], kind="complete", native=None, stubs=["lrtr_dbg", "lrtr_get_monotonic_time"]),
    U(id="sync", props=["C05", "C13", "C07"], file="units/sync.c", entry="h_sync", defines=["H_ENTRY=h_sync"],
      enforce=["rtr_sync"], replace=["rtr_receive_pdu", "rtr_handle_cache_response_pdu/rtr_handle_cache_response_pdu__client", "rtr_sync_receive_and_store_pdus",
                                     "rtr_send_error_pdu_from_host", "rtr_handle_error_pdu/rtr_handle_error_pdu__client"],
      loops=[SYNC_LOOP], kind="unbounded", need_classes=["postcondition", "loop_invariant_step", "precondition"], native=None,
      stubs=["lrtr_dbg", "lrtr_get_monotonic_time", "pthread_setcancelstate"]),
    # ------------------------------------------------------------------ transport (C04, C14)
    U(id="tr_recv_all", props=["C04"], file="units/transport.c", entry="h_tr_recv_all", defines=["H_ENTRY=h_tr_recv_all"],
      enforce=["tr_recv_all"], loops=[RECV_ALL_LOOP], kind="unbounded",
      need_classes=["postcondition", "loop_invariant_step", "loop_decreases"], native=None),
    U(id="tr_send_all", props=["C14"], file="units/transport.c", entry="h_tr_send_all", defines=["H_ENTRY=h_tr_send_all"],
      enforce=["tr_send_all"], loops=[SEND_ALL_LOOP], kind="unbounded",
      need_classes=["postcondition", "loop_invariant_step", "loop_decreases"], native=None),
    # ------------------------------------------------------------------ L0 bits (C01, C04)
    U(id="l0_get_bits", props=["C01", "C04"], file="units/l0_bits.c", entry="h_l0_get_bits", defines=["H_ENTRY=h_l0_get_bits"],
      enforce=["lrtr_get_bits"], kind="complete", native={}),
    U(id="l0_ipv4_get_bits", props=["C01", "C04"], file="units/l0_bits.c", entry="h_l0_ipv4_get_bits", defines=["H_ENTRY=h_l0_ipv4_get_bits"],
      enforce=["lrtr_ipv4_get_bits"], replace=["lrtr_get_bits"], kind="complete", native={}),
    U(id="l0_ipv6_get_bits", props=["C01", "C04"], file="units/l0_bits.c", entry="h_l0_ipv6_get_bits", defines=["H_ENTRY=h_l0_ipv6_get_bits"],
      enforce=["lrtr_ipv6_get_bits"], replace=["lrtr_get_bits"], kind="complete", native={}),
    U(id="l0_ip_get_bits", props=["C01", "C04"], file="units/l0_ip.c", entry="h_l0_ip_get_bits", defines=["H_ENTRY=h_l0_ip_get_bits"],
      enforce=["lrtr_ip_addr_get_bits"], replace=["lrtr_ipv4_get_bits", "lrtr_ipv6_get_bits"], kind="complete", native={}),
    U(id="l0_ip_is_zero", props=["C01", "C04"], file="units/l0_ip.c", entry="h_l0_ip_is_zero", defines=["H_ENTRY=h_l0_ip_is_zero"],
      enforce=["lrtr_ip_addr_is_zero"], kind="complete", native={}),
    U(id="l0_ip_equal", props=["C01", "C02", "C04"], file="units/l0_ip.c", entry="h_l0_ip_equal", defines=["H_ENTRY=h_l0_ip_equal"],
      enforce=["lrtr_ip_addr_equal"], kind="complete", native={}),
    # ------------------------------------------------------------------ trie path units (C01, C02, C04)
    U(id="is_left_child", props=["C01", "C02", "C04"], file="units/trie_lookup.c", entry="h_is_left_child",
      defines=["H_ENTRY=h_is_left_child", "STUB_IP"], enforce=["is_left_child"],
      stubs=["lrtr_ip_addr_get_bits", "lrtr_ip_addr_is_zero"], kind="complete", native={}),
    U(id="trie_lookup_v4", props=["C01", "C04"], file="units/trie_lookup.c", entry="h_trie_lookup", defines=["STUB_IP"],
      enforce=["trie_lookup"], stubs=["lrtr_ip_addr_get_bits", "lrtr_ip_addr_is_zero", "lrtr_ip_addr_equal"],
      loops=[LOOKUP_LOOP], kind="unbounded", need_classes=["postcondition", "loop_invariant_step"],
      native={}, timeout=1200, object_bits=6),
    U(id="trie_lookup_v6s", props=["C01", "C04"], file="units/trie_lookup.c", entry="h_trie_lookup", defines=["FAM6", "SPINE_N=33", "STUB_IP"], tier="thorough",
      enforce=["trie_lookup"], stubs=["lrtr_ip_addr_get_bits", "lrtr_ip_addr_is_zero", "lrtr_ip_addr_equal"],
      loops=[LOOKUP_LOOP], kind="bounded: IPv6 paths of at most 33 nodes (full depth 129 in the thorough tier)", need_classes=["postcondition", "loop_invariant_step"],
      native={}, timeout=2400, object_bits=7),
    U(id="trie_lookup_v6", props=["C01", "C04"], file="units/trie_lookup.c", entry="h_trie_lookup", defines=["FAM6"], tier="thorough",
      enforce=["trie_lookup"], link=IP_SRCS,
      loops=[LOOKUP_LOOP], kind="unbounded", need_classes=["postcondition", "loop_invariant_step"],
      native={}, timeout=2400, object_bits=7),
    U(id="validate_v4", props=["C01", "C16"], file="units/validate.c", entry="h_validate", defines=["STUB_IP"],
      enforce=["pfx_table_validate_r"], replace=["trie_lookup", "pfx_table_elem_matches"], loops=[VALIDATE_LOOP], kind="unbounded",
      need_classes=["postcondition", "loop_invariant_step", "precondition"], native=None, timeout=2400,
      stubs=["lrtr_ip_addr_get_bits", "lrtr_ip_addr_is_zero", "lrtr_ip_addr_equal", "pthread_rwlock_*"]),
    U(id="pfx_hist", props=["C02", "C09", "C16", "C18"], file="units/pfx_hist.c", entry="h_pfx_hist", defines=["STUB_IP"], enforce=[], plain=True, tier="lab",
      checked_by_assertions=["pfx_table_add", "pfx_table_remove", "pfx_table_src_remove", "pfx_table_remove_id", "pfx_table_for_each_ipv4_record",
                             "pfx_table_for_each_ipv6_record", "trie_insert", "trie_remove", "trie_lookup_exact", "pfx_table_find_elem",
                             "pfx_table_append_elem", "pfx_table_del_elem", "pfx_table_create_node"],
      need_classes=["assertion"], kind="bounded: histories of 2 adds + 1 operation (quick) / 3 + 1 (thorough) from the empty table",
      tier_defines={"quick": {"HIST_N": 2}, "thorough": {"HIST_N": 3}}, bound=6, native=None, timeout={"quick": 1800, "thorough": 14000},
      unwindset={"trie_remove": {"quick": 3, "thorough": 4}, "trie_insert": {"quick": 3, "thorough": 4},
                 "pfx_table_remove_id": {"quick": 3, "thorough": 4}, "pfx_table_for_each_rec": {"quick": 4, "thorough": 5}},
      object_bits=10, stubs=["lrtr_malloc", "lrtr_realloc", "lrtr_free", "pthread_rwlock_*", "lrtr_ip_addr_*"]),
    U(id="spki_hist", props=["C10", "C16", "C18"], file="units/spki_hist.c", entry="h_spki_hist", enforce=[], plain=True, tier="lab",
      checked_by_assertions=["spki_table_add_entry", "spki_table_remove_entry", "spki_table_src_remove", "spki_table_get_all",
                             "spki_table_search_by_ski", "key_entry_cmp", "tommy_hashlin_insert", "tommy_hashlin_remove",
                             "tommy_hashlin_remove_existing", "tommy_hashlin_search", "tommy_list_insert_tail", "tommy_list_remove_existing"],
      need_classes=["assertion"], kind="bounded: histories of 1 add + 1 operation (quick) / 2 + 1 (thorough), table below the first resize step",
      tier_defines={"quick": {"KH_N": 1}, "thorough": {"KH_N": 2}}, mem_gb=40, bound=22, native=None, timeout={"quick": 1800, "thorough": 14000},
      unwindset={"memcmp.0": 93, "key_eq.0": 93, "mk_key.1": 93, "memcpy.0": 93, "tommy_hashlin_search.0": 5, "tommy_hashlin_remove.0": 5,
                 "spki_table_get_all.0": 5, "spki_table_search_by_ski.0": 5, "spki_table_src_remove.0": 5, "tommy_hashlin_init.0": 7},
      object_bits=10, stubs=["lrtr_malloc", "lrtr_calloc", "lrtr_realloc", "lrtr_free", "pthread_rwlock_*"]),
    U(id="mgr_cb", props=["C15"], file="units/mgr.c", entry="h_mgr_cb", defines=["H_ENTRY=h_mgr_cb"], enforce=[], plain=True,
      checked_by_assertions=["rtr_mgr_cb", "rtr_mgr_close_less_preferable_groups", "get_best_inactive_rtr_mgr_group", "is_some_rtr_mgr_group_established",
                             "rtr_mgr_config_status_is_synced", "rtr_mgr_start_sockets", "set_status"],
      need_classes=["assertion"], kind="bounded: the property's stated domain (1..3 groups x 1..2 sockets), one callback from an arbitrary state",
      bound=5, native=None, timeout=1800, object_bits=10, allow_undefined=True,
      stubs=["rtr_start", "rtr_stop", "pthread_rwlock_*", "lrtr_dbg"]),
    U(id="mgr_init", props=["C15", "C18"], file="units/mgr.c", entry="h_mgr_init", defines=["H_ENTRY=h_mgr_init"], enforce=[], plain=True,
      checked_by_assertions=["rtr_mgr_init", "rtr_mgr_init_sockets", "rtr_mgr_config_cmp", "tommy_list_sort"],
      need_classes=["assertion"], kind="bounded: the property's stated domain (0..3 groups x 0..2 sockets)",
      bound=5, native=None, timeout=1800, object_bits=10, allow_undefined=True,
      stubs=["rtr_init", "pfx_table_init", "spki_table_init", "pfx_table_free", "spki_table_free", "lrtr_malloc", "lrtr_free", "qsort", "pthread_rwlock_*"]),
    U(id="parse6", props=["C19"], file="units/ipstr.c", entry="h_parse6", defines=["H_ENTRY=h_parse6"], enforce=[], plain=True,
      checked_by_assertions=["lrtr_ipv6_str_to_addr"], need_classes=["assertion"],
      kind="bounded: texts of at most 5 characters (quick) / 12 (thorough) without '.'", tier_defines={"quick": {"STRMAX": 5}, "thorough": {"STRMAX": 12}},
      bound={"quick": 9, "thorough": 14}, native={}, timeout={"quick": 1500, "thorough": 7200}, allow_undefined=True, cbmc_flags=["--sat-solver", "cadical"], stubs=["sscanf", "sprintf"]),
    U(id="format6", props=["C19"], file="units/ipstr.c", entry="h_format6", defines=["H_ENTRY=h_format6"], enforce=[], plain=True,
      checked_by_assertions=["lrtr_ipv6_addr_to_str"], need_classes=["assertion"], kind="complete",
      bound=24, native={}, timeout=1800, allow_undefined=True, stubs=["sprintf"]),
    U(id="key_cmp", props=["C10"], file="units/spki_leaf.c", entry="h_key_cmp", defines=["H_ENTRY=h_key_cmp"], enforce=[], plain=True,
      checked_by_assertions=["key_entry_cmp"], need_classes=["assertion"], kind="complete", bound=93, native={"only": ["rtrlib/lib/alloc_utils.c", "third-party/tommyds/tommy.c"], "libs": ["-lpthread"]}, allow_undefined=True),
    U(id="key_conv", props=["C10"], file="units/spki_leaf.c", entry="h_key_conv", defines=["H_ENTRY=h_key_conv"], enforce=[], plain=True,
      checked_by_assertions=["key_entry_to_spki_record", "spki_record_to_key_entry"], need_classes=["assertion"], kind="complete", bound=93,
      native={"only": ["rtrlib/lib/alloc_utils.c", "third-party/tommyds/tommy.c"], "libs": ["-lpthread"]}, allow_undefined=True),
    U(id="shape_remove", props=["C02"], file="units/trie_shape.c", entry="h_shape_remove", defines=["STUB_IP", "H_ENTRY=h_shape_remove"], enforce=[], plain=True,
      checked_by_assertions=["trie_remove", "replace_node_data", "deref_node"], need_classes=["assertion"],
      kind="bounded: every trie shape of up to 2 (quick) / 3 (thorough) levels below the node", tier_defines={"quick": {"TS_DEPTH": 2}, "thorough": {"TS_DEPTH": 3}},
      bound=18, unwindset={"trie_remove": {"quick": 3, "thorough": 4}}, native={"only": ["rtrlib/lib/alloc_utils.c"], "libs": ["-lpthread"]}, timeout=3000, allow_undefined=True, stubs=["lrtr_ip_addr_*"]),
    U(id="shape_insert", props=["C02"], file="units/trie_shape.c", entry="h_shape_insert", defines=["STUB_IP", "H_ENTRY=h_shape_insert"], enforce=[], plain=True,
      checked_by_assertions=["trie_insert", "swap_nodes", "add_child_node", "is_left_child"], need_classes=["assertion"],
      kind="bounded: every trie shape of up to 2 (quick) / 3 (thorough) levels below the insertion point", tier_defines={"quick": {"TS_DEPTH": 2}, "thorough": {"TS_DEPTH": 3}},
      bound=18, unwindset={"trie_insert": {"quick": 4, "thorough": 5}}, native={"only": ["rtrlib/lib/alloc_utils.c"], "libs": ["-lpthread"]}, timeout=3000, allow_undefined=True, stubs=["lrtr_ip_addr_*"]),
    U(id="pfx_swap", props=["C06", "C16"], file="units/swap.c", entry="h_pfx_swap", enforce=["pfx_table_swap"], kind="complete", native={"only": ["rtrlib/lib/alloc_utils.c", "rtrlib/pfx/trie/trie.c", "rtrlib/lib/ip.c", "rtrlib/lib/ipv4.c", "rtrlib/lib/ipv6.c", "rtrlib/lib/utils.c", "rtrlib/lib/convert_byte_order.c"], "libs": ["-lpthread", "-lrt"]},
      stubs=["pthread_rwlock_*"]),
    U(id="spki_swap", props=["C06", "C10", "C16"], file="units/spki_swap.c", entry="h_spki_swap", enforce=[], plain=True,
      checked_by_assertions=["spki_table_swap"], need_classes=["assertion"], kind="complete", bound=600, native={"skip_all": True, "libs": ["-lpthread"]}, timeout=1200,
      allow_undefined=True, stubs=["pthread_rwlock_*"]),
    U(id="lemma_path", props=["C01", "C02"], file="units/lemma.c", entry="h_lemma_path", enforce=[], plain=True, checked_by_assertions=[],
      need_classes=["assertion"], kind="complete", native=None, allow_undefined=True),
    U(id="bgpsec_align", props=["C11", "C12"], file="units/bgpsec_align.c", entry="h_align", enforce=[], plain=True,
      checked_by_assertions=["align_byte_sequence", "req_stream_size", "get_sig_seg_size", "write_stream"], need_classes=["assertion"],
      kind="bounded: 1 hop (quick) / 1..2 hops (thorough), signatures <= 3 bytes, NLRI <= 32 bits", bound=24, unwind_functions={"h_align": 130}, object_bits=11, mem_gb=40,
      tier_defines={"quick": {"MAXHOPS": 1}, "thorough": {"MAXHOPS": 2}}, native={"skip": ["rtrlib/rtr_mgr.c", "rtrlib/lib/utils.c", "rtrlib/lib/alloc_utils.c", "rtrlib/lib/convert_byte_order.c", "rtrlib/lib/ip.c",
                      "rtrlib/lib/ipv4.c", "rtrlib/lib/ipv6.c", "rtrlib/lib/log.c", "rtrlib/pfx/trie/trie.c", "rtrlib/pfx/trie/trie-pfx.c",
                      "rtrlib/transport/transport.c", "rtrlib/transport/tcp/tcp_transport.c", "rtrlib/rtr/rtr.c", "rtrlib/rtr/packets.c",
                      "rtrlib/bgpsec/bgpsec.c"]}, timeout={"quick": 1800, "thorough": 7200}, allow_undefined=True, stubs=["lrtr_calloc", "lrtr_malloc", "lrtr_free", "lrtr_dbg"]),
    U(id="pfx_add", props=["C02", "C09", "C16", "C18"], file="units/pfx_ops.c", entry="h_pfx_add", defines=["H_ENTRY=h_pfx_add"], enforce=["pfx_table_add"],
      replace=["trie_lookup_exact", "pfx_table_find_elem", "pfx_table_append_elem", "pfx_table_create_node", "trie_insert"],
      kind="complete", need_classes=["postcondition", "precondition"], native=None, stubs=["pthread_rwlock_*", "lrtr_free"]),
    U(id="pfx_remove", props=["C02", "C09", "C16", "C18"], file="units/pfx_ops.c", entry="h_pfx_remove", defines=["H_ENTRY=h_pfx_remove"], enforce=["pfx_table_remove"],
      replace=["trie_lookup_exact", "pfx_table_find_elem", "pfx_table_del_elem", "trie_remove"],
      kind="complete", need_classes=["postcondition", "precondition"], native=None, stubs=["pthread_rwlock_*", "lrtr_free"]),
    U(id="src_remove", props=["C02", "C09", "C16"], file="units/src_remove.c", entry="h_src_remove", defines=["STUB_IP"], enforce=[], plain=True, tier="lab",
      checked_by_assertions=["pfx_table_src_remove", "pfx_table_remove_id", "trie_remove", "pfx_table_del_elem"], need_classes=["assertion"],
      kind="bounded: every trie shape of 2 (quick) / 3 (thorough) levels, 1..2 records per node, two sources", tier_defines={"quick": {"SR_DEPTH": 2}, "thorough": {"SR_DEPTH": 3}},
      bound=9, unwindset={"trie_remove": {"quick": 3, "thorough": 4}, "pfx_table_remove_id": {"quick": 3, "thorough": 4},
                          "pfx_table_del_elem.0": 3, "pfx_table_remove_id.0": {"quick": 5, "thorough": 9}, "pfx_table_remove_id.1": 4, "pfx_table_remove_id.2": 4}, native=None,
      timeout={"quick": 1800, "thorough": 7200}, allow_undefined=True, cbmc_flags=["--sat-solver", "cadical"], stubs=["lrtr_realloc", "lrtr_free", "lrtr_malloc", "pthread_rwlock_*", "lrtr_ip_addr_*"]),
    U(id="pfx_free", props=["C09", "C18"], file="units/pfx_free.c", entry="h_pfx_free", defines=["STUB_IP"], enforce=[], plain=True,
      checked_by_assertions=["pfx_table_free", "trie_remove"], need_classes=["assertion"],
      kind="bounded: every trie shape of 2 levels (root + up to two children), 1..2 records per node", bound=6, unwindset={"trie_remove": 3},
      native={"skip_all": True, "libs": ["-lpthread"]}, timeout=1800, allow_undefined=True, cbmc_flags=["--sat-solver", "cadical"], stubs=["lrtr_free", "pthread_rwlock_*", "lrtr_ip_addr_*"]),
    U(id="spki_add", props=["C10", "C16", "C18"], file="units/spki_ops.c", entry="h_spki_add", tier="lab", defines=["H_ENTRY=h_spki_add", "KN=2"], enforce=[], plain=True,
      checked_by_assertions=["spki_table_add_entry", "key_entry_cmp", "tommy_hashlin_search"], need_classes=["assertion"], kind="bounded: bucket chain / list of at most 2 entries",
      bound=93, unwindset={"tommy_hashlin_search.0": 4, "tommy_hashlin_remove.0": 4},
      native={"skip_all": True, "libs": ["-lpthread"]}, timeout=1800, allow_undefined=True, stubs=["lrtr_malloc", "lrtr_free", "tommy_hashlin_insert", "tommy_hashlin_remove", "pthread_rwlock_*"]),
    U(id="spki_remove", props=["C10", "C16", "C18"], file="units/spki_ops.c", entry="h_spki_remove", tier="lab", defines=["H_ENTRY=h_spki_remove", "KN=2"], enforce=[], plain=True,
      checked_by_assertions=["spki_table_remove_entry", "key_entry_cmp", "tommy_hashlin_search"], need_classes=["assertion"], kind="bounded: bucket chain / list of at most 2 entries",
      bound=93, unwindset={"tommy_hashlin_search.0": 4, "tommy_hashlin_remove.0": 4},
      native={"skip_all": True, "libs": ["-lpthread"]}, timeout=1800, allow_undefined=True, stubs=["lrtr_malloc", "lrtr_free", "tommy_hashlin_insert", "tommy_hashlin_remove", "pthread_rwlock_*"]),
    U(id="spki_copy", props=["C06", "C10", "C16", "C18"], file="units/spki_ops.c", entry="h_spki_copy", tier="lab", defines=["H_ENTRY=h_spki_copy"], enforce=[], plain=True,
      checked_by_assertions=["spki_table_copy_except_socket", "spki_table_add_entry"], need_classes=["assertion"], kind="bounded: source list of at most 3 entries, empty destination",
      bound=93, unwindset={"spki_table_copy_except_socket.0": 5, "tommy_hashlin_search.0": 2},
      native={"skip_all": True, "libs": ["-lpthread"]}, timeout=1800, allow_undefined=True, stubs=["lrtr_malloc", "lrtr_free", "tommy_hashlin_insert", "pthread_rwlock_*"]),
    U(id="spki_get_all", props=["C10", "C16", "C18"], file="units/spki_ops.c", entry="h_spki_get_all", defines=["H_ENTRY=h_spki_get_all"], enforce=[], plain=True,
      checked_by_assertions=["spki_table_get_all"], need_classes=["assertion"], kind="bounded: bucket chain / list of at most 3 entries",
      bound=93, unwindset={"spki_table_get_all.0": 5, "spki_table_search_by_ski.0": 5, "spki_table_src_remove.0": 5},
      native={"skip_all": True, "libs": ["-lpthread"]}, timeout=1800, allow_undefined=True, stubs=["lrtr_realloc", "lrtr_free", "tommy_hashlin_remove_existing", "pthread_rwlock_*"]),
    U(id="spki_search", props=["C10", "C16", "C18"], file="units/spki_ops.c", entry="h_spki_search", defines=["H_ENTRY=h_spki_search"], enforce=[], plain=True,
      checked_by_assertions=["spki_table_search_by_ski"], need_classes=["assertion"], kind="bounded: bucket chain / list of at most 3 entries",
      bound=93, unwindset={"spki_table_get_all.0": 5, "spki_table_search_by_ski.0": 5, "spki_table_src_remove.0": 5},
      native={"skip_all": True, "libs": ["-lpthread"]}, timeout=1800, allow_undefined=True, stubs=["lrtr_realloc", "lrtr_free", "tommy_hashlin_remove_existing", "pthread_rwlock_*"]),
    U(id="spki_src_remove", props=["C10", "C16", "C18"], file="units/spki_ops.c", entry="h_spki_src_remove", defines=["H_ENTRY=h_spki_src_remove"], enforce=[], plain=True,
      checked_by_assertions=["spki_table_src_remove"], need_classes=["assertion"], kind="bounded: bucket chain / list of at most 3 entries",
      bound=93, unwindset={"spki_table_get_all.0": 5, "spki_table_search_by_ski.0": 5, "spki_table_src_remove.0": 5},
      native={"skip_all": True, "libs": ["-lpthread"]}, timeout=1800, allow_undefined=True, stubs=["lrtr_realloc", "lrtr_free", "tommy_hashlin_remove_existing", "pthread_rwlock_*"]),
    # ------------------------------------------------------------------ C20
    U(id="c20_state_names", props=["C20"], file="units/c20_state_names.c", entry="h_c20_state",
      enforce=["rtr_state_to_str"], kind="complete", bound=70,
      static_init=[("socket_str_states", "rtrlib/rtr/rtr.c")],
      native={}),
    U(id="c20_mgr_names", props=["C20"], file="units/c20_mgr_names.c", entry="h_c20_mgr",
      enforce=["rtr_mgr_status_to_str"], kind="complete", bound=70,
      native={}),
    # ------------------------------------------------------------------ C17
    U(id="c17_range", props=["C17"], file="units/c17_intervals.c", entry="h_c17_range", defines=["H_ENTRY=h_c17_range"],
      enforce=["rtr_check_interval_range"], kind="complete", native={}),
    U(id="c17_apply", props=["C17"], file="units/c17_intervals.c", entry="h_c17_apply", defines=["H_ENTRY=h_c17_apply"],
      enforce=["apply_interval_value"], kind="complete", native={}),
    U(id="c17_option", props=["C17"], file="units/c17_intervals.c", entry="h_c17_option", defines=["H_ENTRY=h_c17_option"],
      enforce=["rtr_check_interval_option"], replace=["rtr_check_interval_range", "apply_interval_value"],
      kind="complete", native={}),
    U(id="c17_init", props=["C17", "C05", "C13"], file="units/c17_init.c", entry="h_c17_init",
      enforce=["rtr_init"], replace=["rtr_check_interval_range"], kind="complete", native={}),
]


def unit(uid):
    for u in UNITS:
        if u["id"] == uid:
            return u
    raise KeyError(uid)


def backend_of(u):
    fl = u.get("cbmc_flags", [])
    for f in fl:
        if f in ("--cvc5", "--z3", "--smt2"):
            return "cbmc SMT back end " + f
        if f.startswith("--sat-solver") or f.startswith("--external-sat-solver"):
            return "cbmc SAT back end " + f
    return "cbmc SAT back end (minisat2, built in)"
