#!/bin/sh
# Baseline of the repository with the verification guard OFF (the library is never built natively
# with -DRTRLIB_VERIF): configure + build + ctest in a scratch directory outside /repo and /verif.
# Exit 0 iff every test passes except the two that need network access (always failing offline:
# test_dynamic_groups, test_live_validation; see /root/.vp/BASELINE.json).
REPO=${VERIF_REPO:-/repo}
B=$(mktemp -d /var/tmp/verif-baseline-XXXXXX)
trap 'rm -rf "$B"' EXIT
cmake -G Ninja -S "$REPO" -B "$B" -DCMAKE_BUILD_TYPE=RelWithDebInfo -DCMAKE_C_FLAGS=-Wno-error -DUNIT_TESTING=ON >"$B/cmake.log" 2>&1 || { tail -30 "$B/cmake.log"; exit 1; }
cmake --build "$B" >"$B/build.log" 2>&1 || { tail -40 "$B/build.log"; exit 1; }
ctest --test-dir "$B" -j8 --timeout 900 >"$B/ctest.log" 2>&1
grep -E "Test +#|tests passed|tests failed" "$B/ctest.log"
FAILED=$(grep -E "^\s*[0-9]+ - " "$B/ctest.log" | sed -E 's/^\s*[0-9]+ - ([a-z_A-Z0-9]+).*/\1/' | sort -u | tr '\n' ' ')
echo "failed tests: $FAILED"
for t in $FAILED; do
  case "$t" in
    test_dynamic_groups|test_live_validation) ;;
    *) echo "UNEXPECTED FAILURE: $t"; grep -A30 "$t" "$B/ctest.log" | head -60; exit 1;;
  esac
done
exit 0
