/*
 * pthread_rwlock as a ghost lock word (C16, sequential lock protocol).  The table's roots are only
 * meaningful while the lock is held: outside a critical section the stub parks junk in the table's root
 * fields (another thread may be changing them), installs the real roots on acquisition and parks junk
 * again on release.  A read of table state before the lock or after the unlock therefore sees junk and
 * breaks the function's postcondition; writes outside a write lock are lost.
 * ASSUMPTION: pthread rwlock semantics (mutual exclusion of writers, readers/writer exclusion).
 */
#ifndef ENV_LOCK_H
#define ENV_LOCK_H
struct lock_ghost {
	int held; /* 0 free, 1 read, 2 write */
	bool error; /* double acquisition, unlock of a free lock, wrong lock object */
	unsigned int acquisitions;
	struct pfx_table *table; /* the table this lock guards */
	struct trie_node *real4, *real6; /* the roots, visible only inside a critical section */
};
static struct lock_ghost g_lock;
static struct trie_node g_junk; /* what an unsynchronised reader gets */

#ifndef VERIF_NATIVE
static void lock_enter(pthread_rwlock_t *l, int mode)
{
	if (g_lock.held || l != &g_lock.table->lock)
		g_lock.error = true;
	g_lock.held = mode;
	g_lock.acquisitions++;
	g_lock.table->ipv4 = g_lock.real4;
	g_lock.table->ipv6 = g_lock.real6;
}
int pthread_rwlock_rdlock(pthread_rwlock_t *l)
{
	lock_enter(l, 1);
	return 0;
}
int pthread_rwlock_wrlock(pthread_rwlock_t *l)
{
	lock_enter(l, 2);
	return 0;
}
int pthread_rwlock_unlock(pthread_rwlock_t *l)
{
	if (!g_lock.held || l != &g_lock.table->lock)
		g_lock.error = true;
	if (g_lock.held == 2) {
		/* a writer's updates of the roots become the table's state */
		g_lock.real4 = g_lock.table->ipv4;
		g_lock.real6 = g_lock.table->ipv6;
	}
	g_lock.held = 0;
	g_lock.table->ipv4 = &g_junk;
	g_lock.table->ipv6 = &g_junk;
	return 0;
}
#endif
static void lock_setup(struct pfx_table *t, struct trie_node *r4, struct trie_node *r6)
{
	g_lock.held = 0;
	g_lock.error = false;
	g_lock.acquisitions = 0;
	g_lock.table = t;
	g_lock.real4 = r4;
	g_lock.real6 = r6;
	t->ipv4 = &g_junk;
	t->ipv6 = &g_junk;
}
#endif
