/*
 * Environment stub: lrtr_dbg (rtrlib/lib/log.c) only formats its arguments to stderr and touches no
 * library state.  ASSUMPTION (listed in every evidence file that uses it): debug logging has no effect.
 * Natively the real log.c is linked instead.
 */
#ifndef ENV_LOG_H
#define ENV_LOG_H
#ifndef VERIF_NATIVE
void lrtr_dbg(const char *frmt, ...)
{
	(void)frmt;
}
#endif
#endif
