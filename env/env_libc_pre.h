/*
 * Include BEFORE the real .c file.  CBMC's built-in snprintf model cannot carry a contract (DFCC fails
 * an internal unwinding assertion on it), so in the verifier's reading calls of snprintf(buf, size, ...)
 * in the unit's translation unit go to verif_fmt(buf, size), whose ASSUMED contract is that of libc:
 * writes only inside buf[0..size), leaves it NUL-terminated.  Natively the real snprintf is used.
 */
#ifndef ENV_LIBC_PRE_H
#define ENV_LIBC_PRE_H
#include <stdio.h>
#include <stddef.h>
#if !defined(VERIF_NATIVE) && defined(VERIF_FMT_BODY)
/* executable form for units that run without contract instrumentation */
unsigned char nondet_uchar(void);
static int verif_fmt(char *str, size_t size)
{
	__CPROVER_assert(size > 0 && __CPROVER_w_ok(str, size), "precondition of snprintf: destination writable");
	for (size_t i = 0; i + 1 < size && i < 80; i++)
		str[i] = (char)nondet_uchar();
	str[size - 1] = 0;
	return 0;
}
#define snprintf(s, n, ...) verif_fmt((s), (n))
#elif !defined(VERIF_NATIVE)
int verif_fmt(char *str, size_t size)
__CPROVER_requires(size > 0 && __CPROVER_w_ok(str, size))
__CPROVER_ensures(str[size - 1] == 0)
__CPROVER_assigns(__CPROVER_object_upto(str, size));
#define snprintf(s, n, ...) verif_fmt((s), (n))
#endif
#endif
