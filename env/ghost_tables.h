/*
 * Ghost tables: the C02 / C10 table contracts in CLIENT reading, as a tiny executable set over a
 * universe of record VALUES (used by units/store.c in place of trie-pfx.c / ht-spkitable.c).
 * A table operation behaves exactly as its contract says (duplicate / not found / success, or an
 * injected PFX_ERROR / SPKI_ERROR standing for an allocation failure, with no effect); removal by source
 * deletes exactly that source's records; copy-except-socket, swap and free act on whole tables.
 * Table 0 is the socket's live table, table 1 the shadow table built for an atomic reload.
 */
#ifndef ENV_GHOST_TABLES_H
#define ENV_GHOST_TABLES_H

#ifndef GT_NU
#define GT_NU 6
#endif
#ifndef GT_NK
#define GT_NK 3
#endif

struct gtables {
	struct pfx_record u[GT_NU]; /* universe of prefix records, by value */
	unsigned int nu;
	bool p[2][GT_NU]; /* presence */
	struct spki_record uk[GT_NK];
	unsigned int nk;
	bool k[2][GT_NK];
	const struct pfx_table *pmain;
	const struct pfx_table *pshadow;
	const struct spki_table *kmain;
	const struct spki_table *kshadow;
	bool overflow; /* a record value outside the universe was seen (unit too small, not a violation) */
	bool bad_table; /* an operation addressed a table that is neither the live nor the shadow table */
	bool injected_error; /* some table operation failed with *_ERROR (allocation failure) */
	unsigned int pfx_swaps, spki_swaps;
	bool live_mutated_before_swap; /* C06: add/remove on the LIVE table while a reload is in progress */
	bool reload; /* the unit runs in reload (is_resetting) mode */
	unsigned int shadow_inits, shadow_frees, kshadow_inits, kshadow_frees;
	unsigned int diff_calls, kdiff_calls;
};
static struct gtables g_gt;

static bool gt_rec_eq(const struct pfx_record *a, const struct pfx_record *b)
{
	if (a->asn != b->asn || a->min_len != b->min_len || a->max_len != b->max_len || a->socket != b->socket || a->prefix.ver != b->prefix.ver)
		return false;
	if (a->prefix.ver == LRTR_IPV6)
		return a->prefix.u.addr6.addr[0] == b->prefix.u.addr6.addr[0] && a->prefix.u.addr6.addr[1] == b->prefix.u.addr6.addr[1] &&
		       a->prefix.u.addr6.addr[2] == b->prefix.u.addr6.addr[2] && a->prefix.u.addr6.addr[3] == b->prefix.u.addr6.addr[3];
	return a->prefix.u.addr4.addr == b->prefix.u.addr4.addr;
}

/* index of the record value in the universe; registers it if new */
static int gt_canon(const struct pfx_record *r)
{
	for (unsigned int j = 0; j < GT_NU; j++)
		if (j < g_gt.nu && gt_rec_eq(&g_gt.u[j], r))
			return (int)j;
	if (g_gt.nu >= GT_NU) {
		g_gt.overflow = true;
		return -1;
	}
	g_gt.u[g_gt.nu] = *r;
	g_gt.p[0][g_gt.nu] = false;
	g_gt.p[1][g_gt.nu] = false;
	return (int)g_gt.nu++;
}

/* Key identity in the ghost table: AS, source and the first/last byte of SKI and SPKI.  The code under
 * verification in units/store.c never looks into the key material (it is copied as a block by
 * rtr_key_pdu_2_spki_record, verified byte for byte in units/pdu2rec.c), so a coarser identity only merges
 * cases that behave alike; the exact 4-field identity of the real table is C10's subject. */
static bool gt_key_eq(const struct spki_record *a, const struct spki_record *b)
{
	return a->asn == b->asn && a->socket == b->socket && a->ski[0] == b->ski[0] && a->ski[SKI_SIZE - 1] == b->ski[SKI_SIZE - 1] &&
	       a->spki[0] == b->spki[0] && a->spki[SPKI_SIZE - 1] == b->spki[SPKI_SIZE - 1];
}

static int gt_kcanon(const struct spki_record *r)
{
	for (unsigned int j = 0; j < GT_NK; j++)
		if (j < g_gt.nk && gt_key_eq(&g_gt.uk[j], r))
			return (int)j;
	if (g_gt.nk >= GT_NK) {
		g_gt.overflow = true;
		return -1;
	}
	g_gt.uk[g_gt.nk] = *r;
	g_gt.k[0][g_gt.nk] = false;
	g_gt.k[1][g_gt.nk] = false;
	return (int)g_gt.nk++;
}

static int gt_ptab(const struct pfx_table *t)
{
	if (t == g_gt.pmain)
		return 0;
	if (t == g_gt.pshadow && t)
		return 1;
	g_gt.bad_table = true;
	return 1;
}
static int gt_ktab(const struct spki_table *t)
{
	if (t == g_gt.kmain)
		return 0;
	if (t == g_gt.kshadow && t)
		return 1;
	g_gt.bad_table = true;
	return 1;
}

#ifndef VERIF_NATIVE
/* ------------------------------------------------------------------ prefix table */
void pfx_table_init(struct pfx_table *t, pfx_update_fp fp)
{
	/* only the shadow table is initialised by the code under verification */
	g_gt.pshadow = t;
	t->update_fp = fp;
	for (unsigned int j = 0; j < GT_NU; j++)
		g_gt.p[1][j] = false;
	g_gt.shadow_inits++;
}
int pfx_table_add(struct pfx_table *t, const struct pfx_record *r)
{
	int s = gt_ptab(t), j = gt_canon(r);

	if (s == 0 && g_gt.reload && g_gt.pfx_swaps == 0)
		g_gt.live_mutated_before_swap = true;
	if (j < 0)
		return PFX_ERROR;
	if (g_gt.p[s][j])
		return PFX_DUPLICATE_RECORD;
	if (VND_BOOL()) {
		g_gt.injected_error = true;
		return PFX_ERROR;
	}
	g_gt.p[s][j] = true;
	return PFX_SUCCESS;
}
int pfx_table_remove(struct pfx_table *t, const struct pfx_record *r)
{
	int s = gt_ptab(t), j = gt_canon(r);

	if (s == 0 && g_gt.reload && g_gt.pfx_swaps == 0)
		g_gt.live_mutated_before_swap = true;
	if (j < 0)
		return PFX_ERROR;
	if (!g_gt.p[s][j])
		return PFX_RECORD_NOT_FOUND;
	if (VND_BOOL()) {
		g_gt.injected_error = true;
		return PFX_ERROR;
	}
	g_gt.p[s][j] = false;
	return PFX_SUCCESS;
}
int pfx_table_src_remove(struct pfx_table *t, const struct rtr_socket *sock)
{
	int s = gt_ptab(t);

	for (unsigned int j = 0; j < GT_NU; j++)
		if (j < g_gt.nu && g_gt.u[j].socket == sock)
			g_gt.p[s][j] = false;
	return PFX_SUCCESS;
}
int pfx_table_copy_except_socket(struct pfx_table *src, struct pfx_table *dst, const struct rtr_socket *sock)
{
	int a = gt_ptab(src), b = gt_ptab(dst);
	bool fail = VND_BOOL();

	for (unsigned int j = 0; j < GT_NU; j++)
		g_gt.p[b][j] = (j < g_gt.nu && g_gt.u[j].socket != sock && g_gt.p[a][j] && !(fail && VND_BOOL()));
	if (fail)
		g_gt.injected_error = true;
	return fail ? PFX_ERROR : PFX_SUCCESS;
}
void pfx_table_swap(struct pfx_table *x, struct pfx_table *y)
{
	int a = gt_ptab(x), b = gt_ptab(y);

	for (unsigned int j = 0; j < GT_NU; j++) {
		bool tmp = g_gt.p[a][j];

		g_gt.p[a][j] = g_gt.p[b][j];
		g_gt.p[b][j] = tmp;
	}
	g_gt.pfx_swaps++;
}
void pfx_table_free_without_notify(struct pfx_table *t)
{
	if (gt_ptab(t) != 1)
		g_gt.bad_table = true;
	for (unsigned int j = 0; j < GT_NU; j++)
		g_gt.p[1][j] = false;
	g_gt.shadow_frees++;
}
void pfx_table_notify_diff(struct pfx_table *n, struct pfx_table *o, const struct rtr_socket *sock)
{
	if (gt_ptab(n) != 0 || gt_ptab(o) != 1)
		g_gt.bad_table = true;
	g_gt.diff_calls++;
}
/* ------------------------------------------------------------------ router-key table */
void spki_table_init(struct spki_table *t, spki_update_fp fp)
{
	g_gt.kshadow = t;
	t->update_fp = fp;
	for (unsigned int j = 0; j < GT_NK; j++)
		g_gt.k[1][j] = false;
	g_gt.kshadow_inits++;
}
int spki_table_add_entry(struct spki_table *t, struct spki_record *r)
{
	int s = gt_ktab(t), j = gt_kcanon(r);

	if (s == 0 && g_gt.reload && g_gt.spki_swaps == 0)
		g_gt.live_mutated_before_swap = true;
	if (j < 0)
		return SPKI_ERROR;
	if (g_gt.k[s][j])
		return SPKI_DUPLICATE_RECORD;
	if (VND_BOOL()) {
		g_gt.injected_error = true;
		return SPKI_ERROR;
	}
	g_gt.k[s][j] = true;
	return SPKI_SUCCESS;
}
int spki_table_remove_entry(struct spki_table *t, struct spki_record *r)
{
	int s = gt_ktab(t), j = gt_kcanon(r);

	if (s == 0 && g_gt.reload && g_gt.spki_swaps == 0)
		g_gt.live_mutated_before_swap = true;
	if (j < 0)
		return SPKI_ERROR;
	if (!g_gt.k[s][j])
		return SPKI_RECORD_NOT_FOUND;
	if (VND_BOOL()) {
		g_gt.injected_error = true;
		return SPKI_ERROR;
	}
	g_gt.k[s][j] = false;
	return SPKI_SUCCESS;
}
int spki_table_src_remove(struct spki_table *t, const struct rtr_socket *sock)
{
	int s = gt_ktab(t);

	for (unsigned int j = 0; j < GT_NK; j++)
		if (j < g_gt.nk && g_gt.uk[j].socket == sock)
			g_gt.k[s][j] = false;
	return SPKI_SUCCESS;
}
int spki_table_copy_except_socket(struct spki_table *src, struct spki_table *dst, struct rtr_socket *sock)
{
	int a = gt_ktab(src), b = gt_ktab(dst);
	bool fail = VND_BOOL();

	for (unsigned int j = 0; j < GT_NK; j++)
		g_gt.k[b][j] = (j < g_gt.nk && g_gt.uk[j].socket != sock && g_gt.k[a][j] && !(fail && VND_BOOL()));
	if (fail)
		g_gt.injected_error = true;
	return fail ? SPKI_ERROR : SPKI_SUCCESS;
}
void spki_table_swap(struct spki_table *x, struct spki_table *y)
{
	int a = gt_ktab(x), b = gt_ktab(y);

	for (unsigned int j = 0; j < GT_NK; j++) {
		bool tmp = g_gt.k[a][j];

		g_gt.k[a][j] = g_gt.k[b][j];
		g_gt.k[b][j] = tmp;
	}
	g_gt.spki_swaps++;
}
void spki_table_free_without_notify(struct spki_table *t)
{
	if (gt_ktab(t) != 1)
		g_gt.bad_table = true;
	for (unsigned int j = 0; j < GT_NK; j++)
		g_gt.k[1][j] = false;
	g_gt.kshadow_frees++;
}
void spki_table_notify_diff(struct spki_table *n, struct spki_table *o, const struct rtr_socket *sock)
{
	if (gt_ktab(n) != 0 || gt_ktab(o) != 1)
		g_gt.bad_table = true;
	g_gt.kdiff_calls++;
}
#endif
#endif
