/*
 * Environment of packets.c for the proof units (CBMC reading only; natively the real library is linked
 * and a scripted transport is installed through the function pointers instead).
 *
 *  tr_recv_all / tr_send_all : executable form of the contracts proved in units/transport.c --
 *      any error code, or the whole transfer.  Reception is modelled zero-copy: the bytes "received"
 *      are the (arbitrary) bytes already in the destination buffer, so the raw PDU is the buffer's
 *      content before the call; the stub checks that the destination is writable for `len` bytes and logs
 *      the call.  Sending logs pointer, length and (for the constant-size senders) the bytes.
 *  lrtr_dbg, snprintf        : no effect on library state / writes at most `size` bytes, NUL-terminated.
 *  pthread_setcancelstate, pthread cleanup : no effect (cancellation is not modelled).
 */
#ifndef ENV_PACKETS_H
#define ENV_PACKETS_H
#include "env/env_log.h"

#define ENV_MAX_CALLS 4
#define ENV_SENT_MAX 256
struct env_log {
	unsigned int rx_calls;
	const void *rx_ptr[ENV_MAX_CALLS];
	size_t rx_len[ENV_MAX_CALLS];
	time_t rx_timeout[ENV_MAX_CALLS];
	int rx_ret[ENV_MAX_CALLS];
	unsigned int tx_calls;
	size_t tx_len; /* of the last send */
	int tx_ret;
	unsigned char tx_bytes[ENV_SENT_MAX]; /* first bytes of the last send */
	unsigned int state_cb_calls;
};
static struct env_log g_env;

#ifndef VERIF_NATIVE
#ifndef ENV_OWN_RECV_STUB
int tr_recv_all(const struct tr_socket *socket, const void *pdu, const size_t len, const time_t timeout)
{
	__CPROVER_assert(len <= 3248u && __CPROVER_w_ok(pdu, len), "precondition of tr_recv_all: destination writable for len bytes (contract)");
	int r = VND_INT();

	ASSUME(r == -1 || r == -2 || r == -3 || r == -4 || r == (int)len);
	if (g_env.rx_calls < ENV_MAX_CALLS) {
		g_env.rx_ptr[g_env.rx_calls] = pdu;
		g_env.rx_len[g_env.rx_calls] = len;
		g_env.rx_timeout[g_env.rx_calls] = timeout;
		g_env.rx_ret[g_env.rx_calls] = r;
	}
	g_env.rx_calls++;
	return r;
}
#endif

int tr_send_all(const struct tr_socket *socket, const void *pdu, const size_t len, const time_t timeout)
{
	__CPROVER_assert(len <= 3248u && __CPROVER_r_ok(pdu, len), "precondition of tr_send_all: source readable for len bytes (contract)");
	int r = VND_INT();

	ASSUME(r == -1 || r == -2 || r == -3 || r == -4 || r == (int)len);
	g_env.tx_len = len;
	g_env.tx_ret = r;
#ifndef ENV_NO_TX_BYTES
	for (unsigned int i = 0; i < ENV_SENT_MAX; i++)
		if (i < len)
			g_env.tx_bytes[i] = ((const unsigned char *)pdu)[i];
#endif
	g_env.tx_calls++;
	return r;
}

/* glibc's pthread_cleanup_push/pop macros: registration only, cancellation itself is not modelled */
void __pthread_register_cancel(__pthread_unwind_buf_t *buf)
{
}
void __pthread_unregister_cancel(__pthread_unwind_buf_t *buf)
{
}
void __pthread_unwind_next(__pthread_unwind_buf_t *buf)
{
	__CPROVER_assume(0);
}
int __sigsetjmp(struct __jmp_buf_tag *env, int savemask)
{
	return 0;
}

/* address formatting for debug messages only (ip.c is not linked into packets units) */
int lrtr_ip_addr_to_str(const struct lrtr_ip_addr *ip, char *str, const unsigned int len)
{
	if (len > 0)
		str[0] = 0;
	return 0;
}

int pthread_setcancelstate(int state, int *oldstate)
{
	if (oldstate)
		*oldstate = 0;
	return 0;
}
#endif
#endif
