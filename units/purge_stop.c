/*
 * C07 -- rtr_purge_outdated_records and rtr_stop (rtr.c).
 *   purge: a socket without time stamp is left alone; otherwise, if the clock fails or more than
 *          expire_interval has passed since last_update, BOTH tables are purged for exactly this socket and
 *          the socket falls back to a reset; else nothing happens.
 *   stop:  a running socket ends CLOSED, holds no records (both tables purged for this socket), will send
 *          a Reset Query when started again.
 * Complete (loop-free).  The table purges are the C02 / C10 contracts in client reading (ghost counters).
 */
#include "verif.h"

#include "rtrlib/rtr/rtr.c" /* the real translation unit */

#include "env/env_log.h"
#include "contracts/fsm_client.h"

#ifndef H_ENTRY
#define H_ENTRY h_purge
#endif
VERIF_MAIN(H_ENTRY)

static struct rtr_socket g_sock;
static struct rtr_socket g_pre;
static struct tr_socket g_tr;
static struct pfx_table g_pt;
static struct spki_table g_st;
static time_t g_now;
static bool g_clock_fails;
struct ps_ghost {
	unsigned int pfx_purges, spki_purges, closes, cancels, joins;
	bool wrong_target;
};
static struct ps_ghost g_ps;

int lrtr_get_monotonic_time(time_t *seconds)
{
	if (g_clock_fails)
		return -1;
	*seconds = g_now;
	return 0;
}
int pfx_table_src_remove(struct pfx_table *t, const struct rtr_socket *s)
{
	if (t != &g_pt || s != &g_sock)
		g_ps.wrong_target = true;
	g_ps.pfx_purges++;
	return VND_BOOL() ? 0 : -1;
}
int spki_table_src_remove(struct spki_table *t, const struct rtr_socket *s)
{
	if (t != &g_st || s != &g_sock)
		g_ps.wrong_target = true;
	g_ps.spki_purges++;
	return VND_BOOL() ? 0 : -1;
}
void tr_close(struct tr_socket *s)
{
	g_ps.closes++;
}
int pthread_cancel(pthread_t t)
{
	g_ps.cancels++;
	return 0;
}
int pthread_join(pthread_t t, void **r)
{
	g_ps.joins++;
	return 0;
}
void rtr_change_socket_state(struct rtr_socket *s, const enum rtr_socket_state new_state)
{
	struct rtr_socket p = *s;

	s->state = (enum rtr_socket_state)VND_U8();
	ASSUME(CSS_POST(s, &p, new_state));
}

static void mk(void)
{
	g_sock.tr_socket = &g_tr;
	g_sock.pfx_table = &g_pt;
	g_sock.spki_table = &g_st;
	g_sock.version = VND_U8() & 1;
	g_sock.state = (enum rtr_socket_state)VND_U8();
	ASSUME(g_sock.state <= RTR_CLOSED);
	g_sock.session_id = VND_U16();
	g_sock.request_session_id = VND_BOOL();
	g_sock.serial_number = VND_U32();
	g_sock.last_update = (time_t)(VND_U64() & 0xffffffffffull);
	g_sock.is_resetting = VND_BOOL();
	g_sock.expire_interval = VND_U32();
	g_sock.thread_id = (pthread_t)VND_U64();
	g_pre = g_sock;
	g_now = (time_t)(VND_U64() & 0xffffffffffull);
	g_clock_fails = VND_BOOL();
	struct ps_ghost z = {0};

	g_ps = z;
}

static void rtr_purge_outdated_records(struct rtr_socket *rtr_socket)
__CPROVER_requires(rtr_socket == &g_sock)
__CPROVER_ensures(1)
__CPROVER_assigns(rtr_socket->request_session_id, rtr_socket->serial_number, rtr_socket->last_update, rtr_socket->is_resetting,
		  __CPROVER_object_whole(&g_ps));

void h_purge(void)
{
	g_tape_n = 0;
	mk();
	rtr_purge_outdated_records(&g_sock);
	const bool expired = g_pre.last_update != 0 && (g_clock_fails || g_now > g_pre.last_update + (time_t)g_pre.expire_interval);

	if (expired) {
		CHECK(g_ps.pfx_purges == 1 && g_ps.spki_purges == 1 && !g_ps.wrong_target, "C07 expired data: both tables are purged for exactly this socket");
		CHECK(g_sock.request_session_id && g_sock.last_update == 0 && g_sock.serial_number == 0, "C07/C05 after expiry the conversation restarts with a Reset Query");
	} else {
		CHECK(g_ps.pfx_purges == 0 && g_ps.spki_purges == 0, "C07 data that is still fresh (or a socket without data) is left alone");
		CHECK(g_sock.request_session_id == g_pre.request_session_id && g_sock.last_update == g_pre.last_update && g_sock.serial_number == g_pre.serial_number &&
			      g_sock.is_resetting == g_pre.is_resetting,
		      "C07 no expiry: bookkeeping untouched");
	}
	CHECK(g_sock.session_id == g_pre.session_id && g_sock.state == g_pre.state && g_sock.version == g_pre.version, "purge touches neither session id, state nor version");
	if (expired && !g_clock_fails)
		CANARY("expiry reachable");
	if (!expired && g_pre.last_update != 0)
		CANARY("fresh reachable");
	if (g_now == g_pre.last_update + (time_t)g_pre.expire_interval && g_pre.last_update != 0 && !g_clock_fails)
		CANARY("boundary reachable");
}

void rtr_stop(struct rtr_socket *rtr_socket)
__CPROVER_requires(rtr_socket == &g_sock)
__CPROVER_ensures(1)
__CPROVER_assigns(rtr_socket->request_session_id, rtr_socket->serial_number, rtr_socket->last_update, rtr_socket->state,
		  rtr_socket->thread_id, __CPROVER_object_whole(&g_ps));

void h_stop(void)
{
	g_tape_n = 0;
	mk();
	rtr_stop(&g_sock);
	if (g_pre.thread_id != 0) {
		CHECK(g_ps.pfx_purges == 1 && g_ps.spki_purges == 1 && !g_ps.wrong_target, "C07 after a socket has been stopped none of its records remain: both tables purged for exactly this socket");
		CHECK(g_ps.cancels == 1 && g_ps.joins == 1 && g_ps.closes == 1, "C07 the worker is cancelled and joined before the purge, the transport closed");
		CHECK(g_sock.request_session_id && g_sock.last_update == 0 && g_sock.serial_number == 0, "C05 a stop/start cycle makes the next query a Reset Query");
		CHECK(g_sock.state == RTR_CLOSED && g_sock.thread_id == 0, "a stopped socket is CLOSED and can be started again");
		CANARY("running socket stopped reachable");
	} else {
		CHECK(g_ps.pfx_purges == 0 && g_ps.spki_purges == 0, "a socket that never ran has nothing to purge");
		CANARY("never started reachable");
	}
}
