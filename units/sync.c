/*
 * C05 / C13 (and the C07 bookkeeping) -- rtr_sync and rtr_handle_cache_response_pdu.
 *   h_cache_response : rtr_handle_cache_response_pdu against its contract (complete)
 *   h_sync           : rtr_sync against the contracts of rtr_receive_pdu, rtr_handle_cache_response_pdu,
 *                      rtr_sync_receive_and_store_pdus, rtr_send_error_pdu_from_host (unbounded: the
 *                      Serial-Notify skipping loop carries a loop contract)
 */
#include "verif.h"

#include "env/env_libc_pre.h"
#include "rtrlib/rtr/packets.c" /* the real translation unit */

#include "env/env_packets.h"
#include "contracts/packets.h"
#include "contracts/sync.h"

#ifndef H_ENTRY
#define H_ENTRY h_sync
#endif
VERIF_MAIN(H_ENTRY)

static struct rtr_socket g_sock;
static struct rtr_socket g_pre;
static struct tr_socket g_tr;
static unsigned char g_cr[8] __attribute__((aligned(8)));
static time_t g_now;
static bool g_clock_fails;
#define OLDG(e) (*(__typeof__(e) *)((char *)&g_pre + ((char *)&(e) - (char *)&g_sock)))

/* environment: clock */
int lrtr_get_monotonic_time(time_t *seconds)
{
	if (g_clock_fails)
		return -1;
	*seconds = g_now;
	return 0;
}

static void mk_socket(void)
{
	g_sock.tr_socket = &g_tr;
	g_sock.version = VND_U8();
	ASSUME(g_sock.version <= 1);
	g_sock.has_received_pdus = VND_BOOL();
	g_sock.state = (enum rtr_socket_state)VND_U8();
	ASSUME(g_sock.state <= RTR_CLOSED);
	g_sock.connection_state_fp = NULL;
	g_sock.session_id = VND_U16();
	g_sock.request_session_id = VND_BOOL();
	g_sock.serial_number = VND_U32();
	g_sock.last_update = (time_t)VND_U32();
	g_sock.is_resetting = VND_BOOL();
	g_sock.refresh_interval = VND_U32();
	g_sock.expire_interval = VND_U32();
	g_sock.retry_interval = VND_U32();
	g_sock.iv_mode = (enum rtr_interval_mode)(VND_U8() & 3);
	g_pre = g_sock;
	struct env_log z = {0};
	struct sync_ghost zg = {0};

	g_env = z;
	g_gh = zg;
	g_now = (time_t)VND_U32();
	g_clock_fails = VND_BOOL();
}

void h_cache_response(void)
{
	g_tape_n = 0;
	mk_socket();
	struct pdu_cache_response *cr = (struct pdu_cache_response *)g_cr;

	cr->ver = g_sock.version;
	cr->type = CACHE_RESPONSE;
	cr->session_id = VND_U16();
	cr->len = 8;
	int r = rtr_handle_cache_response_pdu(&g_sock, (char *)g_cr);

	CHECK(CACHE_RESPONSE_POST(r, &g_sock, g_cr, OLDG), "C05 Cache Response: adopt the session when none is held, otherwise it must equal the established one");
	if (!g_pre.request_session_id && g_pre.session_id != cr->session_id)
		CHECK(r == -1 && g_gh.err_reports == 1 && g_gh.last_err_code == SPEC_ERR_CORRUPT_DATA, "C05/C14 foreign session: refused and reported");
	else
		CHECK(r == 0 && g_gh.err_reports == 0, "C14 no report without a violation");
	CHECK(g_sock.serial_number == g_pre.serial_number && g_sock.request_session_id == g_pre.request_session_id && g_sock.version == g_pre.version,
	      "C05 Cache Response leaves serial, request flag and version alone");
	if (r == -1)
		CANARY("foreign session reachable");
	if (r == 0 && g_sock.is_resetting && !g_pre.is_resetting)
		CANARY("reload start reachable");
	if (r == 0 && !g_pre.request_session_id)
		CANARY("same session reachable");
}

struct blob {
	unsigned char b[3248];
};
static struct blob g_errpdu __attribute__((aligned(8)));

void h_error_pdu(void)
{
	g_tape_n = 0;
	mk_socket();
	ASSUME(HP(g_errpdu.b)->type == SPEC_PDU_ERROR && HOST_LEN_OK(g_errpdu.b));
	int r = rtr_handle_error_pdu(&g_sock, g_errpdu.b);

	CHECK(ERROR_PDU_POST(r, &g_sock, g_errpdu.b, OLDG), "C13 Error Report: lower the version only for code 4 carrying a lower supported version, then reconnect at once");
	CHECK(g_sock.version <= g_pre.version, "C13 version never raised");
	CHECK(g_sock.session_id == g_pre.session_id && g_sock.serial_number == g_pre.serial_number && g_sock.request_session_id == g_pre.request_session_id &&
		      g_sock.last_update == g_pre.last_update,
	      "C05 an Error Report does not touch session bookkeeping");
	if (g_sock.version < g_pre.version)
		CANARY("downgrade reachable");
	if (g_sock.state == RTR_ERROR_NO_DATA_AVAIL && g_pre.state != RTR_ERROR_NO_DATA_AVAIL)
		CANARY("no data reachable");
	if (HP(g_errpdu.b)->len > 3000)
		CANARY("long report reachable");
}

/* ghost: the PDU that ended the Serial-Notify skipping loop is not observable from outside rtr_sync; what
 * the contract states is therefore phrased over the socket and the ghost counters only */
int rtr_sync(struct rtr_socket *rtr_socket)
__CPROVER_requires(__CPROVER_rw_ok(rtr_socket, sizeof(*rtr_socket)) && rtr_socket->version <= 1 &&
		   __CPROVER_r_ok(rtr_socket->tr_socket, sizeof(struct tr_socket)) && rtr_socket->connection_state_fp == NULL)
__CPROVER_ensures(__CPROVER_return_value == 0 || __CPROVER_return_value == -1)
__CPROVER_ensures(rtr_socket->version <= __CPROVER_old(rtr_socket->version))
__CPROVER_assigns(__CPROVER_object_whole(rtr_socket), __CPROVER_object_whole(&g_gh), __CPROVER_object_whole(&g_env));

void h_sync(void)
{
	g_tape_n = 0;
	mk_socket();
	int r = rtr_sync(&g_sock);

	CHECK(r == 0 || r == -1, "C05 rtr_sync returns success or error");
	CHECK(SYNC_POST(r, &g_sock, &g_pre, g_now, g_gh.store_ok), "C05/C07/C13 rtr_sync: contract assumed by the state machine unit");
	CHECK(!(r == -1 && g_gh.store_ok) || g_clock_fails, "C07 a completed payload phase is reported as failure only if the clock failed");
	CHECK(g_sock.version <= g_pre.version, "C13 version never raised");
	CHECK(g_gh.store_calls <= 1, "C05 at most one payload phase per synchronisation");
	if (r == 0) {
		CHECK(g_gh.store_calls == 1 && g_gh.store_ok, "C05 success only after a payload phase that ended with End of Data");
		CHECK(!g_sock.request_session_id && g_sock.serial_number == g_gh.eod_sn, "C05 after success the socket holds the serial of End of Data and no longer requests a session");
		CHECK(g_pre.request_session_id || g_sock.session_id == g_pre.session_id, "C05 an established session is never replaced by a successful sync");
		CHECK(g_sock.last_update == g_now && !g_clock_fails, "C07 success stamps the time of the synchronisation");
		CHECK(g_sock.version == g_pre.version || !g_pre.has_received_pdus, "C13 downgrade only on the first PDU of a connection");
	} else {
		/* failure: bookkeeping of the last completed sync is kept, or the socket falls back to a reset */
		CHECK(g_gh.store_ok || (g_sock.serial_number == g_pre.serial_number), "C05 a failed sync keeps the serial");
		CHECK(g_pre.request_session_id || g_sock.session_id == g_pre.session_id, "C05 a failed sync keeps an established session id");
		if (!g_pre.request_session_id && !g_sock.request_session_id)
			CHECK(g_sock.session_id == g_pre.session_id && (g_gh.store_ok || g_sock.serial_number == g_pre.serial_number), "C05 next query carries the same session and serial");
	}
	/* hang-up downgrade: only without a session, one step, reconnect at once */
	if (g_sock.version < g_pre.version && g_pre.has_received_pdus)
		CHECK(r == -1 && g_sock.state == RTR_FAST_RECONNECT &&
			      (g_gh.errpdu_calls > 0 || g_gh.store_calls == 1 || (g_pre.request_session_id && g_sock.version + 1 == g_pre.version && g_gh.store_calls == 0)),
		      "C13 after the first PDU the version is lowered only by an Unsupported-Version report or when the cache hangs up before any session exists; reconnect at once");
	if (g_sock.state == RTR_FAST_RECONNECT && g_pre.state != RTR_FAST_RECONNECT && g_gh.store_calls == 0)
		CHECK(g_sock.version < g_pre.version && r == -1, "C13 fast reconnect only together with a downgrade");
	/* a payload phase is entered only through a Cache Response whose session was accepted: with an
	 * established session the handler was called and did not refuse (no error report requested before) */
	if (g_gh.cr_refused)
		CHECK(r == -1 && g_gh.store_calls == 0, "C05 a Cache Response with a foreign session fails the synchronisation and none of its payload is processed");
	if (g_gh.store_calls == 1 && !g_pre.request_session_id)
		CHECK(g_sock.session_id == g_pre.session_id, "C05 payload of a response is processed only under the established session");

	if (r == 0)
		CANARY("success reachable");
	if (r == -1 && g_sock.state == RTR_ERROR_NO_INCR_UPDATE_AVAIL)
		CANARY("cache reset reachable");
	if (g_sock.state == RTR_FAST_RECONNECT && g_pre.has_received_pdus && g_gh.errpdu_calls == 0)
		CANARY("hang-up downgrade reachable");
	if (r == -1 && g_gh.err_reports == 1 && g_gh.store_calls == 0)
		CANARY("refusal with report reachable");
	if (r == -1 && g_gh.store_calls == 1)
		CANARY("failed payload phase reachable");
	if (g_gh.cr_refused)
		CANARY("refused cache response reachable");
}
