/*
 * C20 -- rtr_state_to_str: name of every declared enumerator, NULL outside, no read
 * outside the name table.  Complete: loop-free over all 2^32 values of the argument.
 * The expected names are generated from rtrlib/rtr/rtr.h on every run (spec_enum_names.h).
 */
#include "verif.h"
#include "spec_enum_names.h"

#include "rtrlib/rtr/rtr.c" /* the real translation unit (static name table) */

#include "contracts/names.h"

VERIF_MAIN(h_c20_state)

/* contract on a re-declaration of the real function */
const char *rtr_state_to_str(enum rtr_socket_state state)
__CPROVER_requires(1)
__CPROVER_ensures(NAMES_POST(__CPROVER_return_value, state, spec_rtr_state_NAMES, SPEC_RTR_STATE_N))
__CPROVER_assigns();

void h_c20_state(void)
{
	g_tape_n = 0;
	enum rtr_socket_state s = (enum rtr_socket_state)VND_U32();
	const char *r = rtr_state_to_str(s);

	CHECK(NAMES_POST(r, s, spec_rtr_state_NAMES, SPEC_RTR_STATE_N), "C20 rtr_state_to_str: enumerator name / NULL outside");
	if ((unsigned int)s == SPEC_RTR_STATE_N - 1)
		CANARY("last enumerator reachable");
	if ((unsigned int)s >= SPEC_RTR_STATE_N)
		CANARY("out-of-range value reachable");
	CANARY("reachable after call");
}
