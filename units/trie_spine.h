/*
 * Spine model of a prefix trie (shared by the trie_lookup / trie_lookup_exact / validate units).
 *
 * g_nodes[0..g_n) are the nodes met when walking from the root along the bits of the query g_q:
 * node k sits at depth k, its child on the side selected by bit k of g_q is node k+1 (NULL after the
 * last one), its other child is either NULL or the root of an opaque off-path subtree (g_off: a valid
 * object the function under verification has no business writing -- the frame check catches it).
 * Node contents (prefix, len, payload) are unconstrained except for what each unit assumes explicitly.
 * SPINE_N is the address width + 1: by the trie invariant (a node at depth d has len >= d and
 * len <= W) no path is longer, so the model covers every path of a well-formed trie.
 *
 * FAM6 selects IPv6 (W = 128), otherwise IPv4 (W = 32).
 */
#ifndef UNITS_TRIE_SPINE_H
#define UNITS_TRIE_SPINE_H
#include "units/mk_addr.h"

#include "units/trie_spine_macros.h"
#ifndef SPINE_N
#define SPINE_N (SP_W + 1)
#endif

static struct trie_node g_nodes[SPINE_N];
static struct trie_node g_off; /* opaque off-path subtree root */
static struct lrtr_ip_addr g_q; /* the query prefix */
static uint8_t g_ql; /* the query length */
static unsigned int g_n; /* number of nodes on the path */
static unsigned int g_k; /* ghost index: an arbitrary node, fixed before the call (stands for "for all k") */

#ifndef SP_LEN_ASSUME
/* default: lengths as a well-formed table holds them */
#define SP_LEN_ASSUME(len, k) ((len) <= SP_W)
#endif

static void mk_spine(void)
{
	g_n = VND_U32();
	ASSUME(g_n <= SPINE_N);
	g_q = SP_MK_ADDR();
	g_ql = VND_U8();
	g_k = VND_U32();
	for (unsigned int k = 0; k < SPINE_N; k++) {
		struct trie_node n;
		struct trie_node *on = (k + 1 < g_n) ? &g_nodes[k + 1] : NULL;
		struct trie_node *off = VND_BOOL() ? &g_off : NULL;
		/* below depth W there is no address bit left: such a node can only be the last one */
		bool left = (k < SP_W) ? (SP_BIT(g_q, k < SP_W ? k : 0) == 0) : true;

		n.prefix = SP_MK_ADDR();
		n.len = VND_U8();
		ASSUME(SP_LEN_ASSUME(n.len, k));
		n.lchild = left ? on : off;
		n.rchild = left ? off : on;
		n.parent = k ? &g_nodes[k - 1] : NULL;
		n.data = NULL;
		g_nodes[k] = n;
	}
}
#endif
