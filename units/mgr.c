/*
 * C15 -- cache-group failover (rtr_mgr.c): one callback step from ANY manager state.
 * The configuration is the property's own domain: NG groups (1..3) in ascending preference order with
 * 1..2 sockets each; group statuses, socket states and time stamps are arbitrary.  rtr_mgr_cb (with its
 * real helpers and the real tommy list) is run for an arbitrary socket and an arbitrary new state, with
 * rtr_start / rtr_stop replaced by logging stubs.  Because the pre-state is arbitrary, the one-step claims
 * hold after every sequence of socket state changes (induction over events).
 *   - a group is reported ESTABLISHED only when every one of its sockets holds synchronised data
 *   - whenever a group becomes ESTABLISHED every less-preferred group that was not closed is shut down (all
 *     its sockets stopped) and reported CLOSED; no more-preferred group is ever stopped
 *   - whenever a group enters ERROR while no group is ESTABLISHED the most-preferred closed group is started
 * BOUNDED = the stated domain (3 groups x 2 sockets); loops unwound with unwinding assertions.
 */
#include "verif.h"

#include "rtrlib/rtr_mgr.c" /* the real translation unit */
#include "third-party/tommyds/tommylist.c"

#include "env/env_log.h"

#ifndef H_ENTRY
#define H_ENTRY h_mgr_cb
#endif
VERIF_MAIN(H_ENTRY)

#define NGMAX 3
#define NSMAX 2
static struct rtr_mgr_config g_conf;
static struct tommy_list_wrapper g_list;
static struct rtr_mgr_group g_grp[NGMAX];
static struct rtr_mgr_group_node g_node[NGMAX];
static struct rtr_socket g_sock[NGMAX][NSMAX];
static struct rtr_socket *g_sockp[NGMAX][NSMAX];
static unsigned int g_ng;
struct mgr_log {
	unsigned int starts[NGMAX][NSMAX], stops[NGMAX][NSMAX];
	unsigned int status_calls;
	bool bad_socket;
	int lock; /* readers */
	bool lock_error;
};
static struct mgr_log g_ml;

int rtr_start(struct rtr_socket *s)
{
	bool hit = false;

	for (unsigned int g = 0; g < NGMAX; g++)
		for (unsigned int i = 0; i < NSMAX; i++)
			if (s == &g_sock[g][i]) {
				g_ml.starts[g][i]++;
				hit = true;
			}
	if (!hit)
		g_ml.bad_socket = true;
	return VND_BOOL() ? 0 : -1;
}
void rtr_stop(struct rtr_socket *s)
{
	bool hit = false;

	for (unsigned int g = 0; g < NGMAX; g++)
		for (unsigned int i = 0; i < NSMAX; i++)
			if (s == &g_sock[g][i]) {
				g_ml.stops[g][i]++;
				hit = true;
			}
	if (!hit)
		g_ml.bad_socket = true;
}
int pthread_rwlock_rdlock(pthread_rwlock_t *l)
{
	if (l != &g_conf.mutex)
		g_ml.lock_error = true;
	g_ml.lock++;
	return 0;
}
int pthread_rwlock_wrlock(pthread_rwlock_t *l)
{
	if (l != &g_conf.mutex || g_ml.lock)
		g_ml.lock_error = true;
	g_ml.lock += 100;
	return 0;
}
int pthread_rwlock_unlock(pthread_rwlock_t *l)
{
	if (l != &g_conf.mutex || g_ml.lock == 0)
		g_ml.lock_error = true;
	else
		g_ml.lock -= g_ml.lock >= 100 ? 100 : 1;
	return 0;
}
static void status_cb(const struct rtr_mgr_group *g, enum rtr_mgr_status st, const struct rtr_socket *s, void *d)
{
	g_ml.status_calls++;
}

static bool synced(unsigned int g)
{
	bool ok = true;

	for (unsigned int i = 0; i < NSMAX; i++)
		if (i < g_grp[g].sockets_len) {
			const enum rtr_socket_state st = g_sock[g][i].state;

			if (g_sock[g][i].last_update == 0 || !(st == RTR_ESTABLISHED || st == RTR_RESET || st == RTR_SYNC))
				ok = false;
		}
	return ok;
}

static void mk_config(void)
{
	g_ng = 1 + (VND_U8() % NGMAX);
	g_conf.groups = &g_list;
	g_conf.len = g_ng;
	g_conf.status_fp = VND_BOOL() ? status_cb : NULL;
	tommy_list_init(&g_list.list);
	for (unsigned int g = 0; g < NGMAX; g++) {
		g_grp[g].sockets = g_sockp[g];
		g_grp[g].sockets_len = 1 + (VND_U8() % NSMAX);
		g_grp[g].preference = VND_U8();
		g_grp[g].status = (enum rtr_mgr_status)(VND_U8() & 3);
		/* ascending, duplicate-free preference order: established by rtr_mgr_init / rtr_mgr_add_group */
		if (g > 0 && g < g_ng)
			ASSUME(g_grp[g].preference > g_grp[g - 1].preference);
		for (unsigned int i = 0; i < NSMAX; i++) {
			g_sockp[g][i] = &g_sock[g][i];
			g_sock[g][i].state = (enum rtr_socket_state)VND_U8();
			ASSUME(g_sock[g][i].state <= RTR_CLOSED);
			g_sock[g][i].last_update = (time_t)VND_U32();
		}
		g_node[g].group = &g_grp[g];
		if (g < g_ng)
			tommy_list_insert_tail(&g_list.list, &g_node[g].node, &g_node[g]);
	}
	struct mgr_log z = {0};

	g_ml = z;
}

void h_mgr_cb(void)
{
	g_tape_n = 0;
	mk_config();
	const unsigned int cg = VND_U8() % NGMAX, ci = VND_U8() % NSMAX;

	ASSUME(cg < g_ng && ci < g_grp[cg].sockets_len);
	const enum rtr_socket_state st = (enum rtr_socket_state)VND_U8();

	ASSUME(st <= RTR_CLOSED);
	/* the socket has just entered the state it reports */
	g_sock[cg][ci].state = st;
	enum rtr_mgr_status pre[NGMAX];
	bool some_established_pre = false;

	for (unsigned int g = 0; g < NGMAX; g++) {
		pre[g] = g_grp[g].status;
		if (g < g_ng && pre[g] == RTR_MGR_ESTABLISHED)
			some_established_pre = true;
	}
	const bool was_synced = synced(cg);

	rtr_mgr_cb(&g_sock[cg][ci], st, &g_conf, &g_grp[cg]);

	CHECK(!g_ml.bad_socket && !g_ml.lock_error && g_ml.lock == 0, "C15 only sockets of the configuration are touched; the configuration lock is released");
	/* (1) ESTABLISHED only with every socket synchronised */
	for (unsigned int g = 0; g < NGMAX; g++)
		if (g < g_ng && g_grp[g].status == RTR_MGR_ESTABLISHED && pre[g] != RTR_MGR_ESTABLISHED) {
			CHECK(g == cg && was_synced, "C15 a group is reported ESTABLISHED only when every one of its sockets holds synchronised data");
			/* (2) every less-preferred group that was not closed is shut down and reported CLOSED */
			for (unsigned int h = 0; h < NGMAX; h++)
				if (h < g_ng && h > g && pre[h] != RTR_MGR_CLOSED) {
					CHECK(g_grp[h].status == RTR_MGR_CLOSED, "C15 when a group becomes ESTABLISHED every less-preferred open group is reported CLOSED");
					for (unsigned int i = 0; i < NSMAX; i++)
						if (i < g_grp[h].sockets_len)
							CHECK(g_ml.stops[h][i] == 1, "C15 ... and each of its sockets is stopped exactly once");
				}
		}
	/* (3) nobody is stopped on behalf of a less-preferred group */
	for (unsigned int h = 0; h < NGMAX; h++)
		for (unsigned int i = 0; i < NSMAX; i++)
			if (g_ml.stops[h][i] > 0)
				CHECK(h < g_ng && i < g_grp[h].sockets_len && h > cg && g_grp[cg].status == RTR_MGR_ESTABLISHED && pre[cg] != RTR_MGR_ESTABLISHED,
				      "C15 a group is shut down only when a more-preferred group has just become ESTABLISHED");
	/* (4) ERROR with no group established: start the most-preferred closed group */
	const bool is_err = st == RTR_ERROR_FATAL || st == RTR_ERROR_TRANSPORT || st == RTR_ERROR_NO_DATA_AVAIL;
	int first_closed = -1;

	for (unsigned int h = 0; h < NGMAX; h++)
		if (first_closed < 0 && h < g_ng && h != cg && pre[h] == RTR_MGR_CLOSED)
			first_closed = (int)h;
	bool any_start = false;

	for (unsigned int h = 0; h < NGMAX; h++)
		for (unsigned int i = 0; i < NSMAX; i++)
			if (g_ml.starts[h][i] > 0)
				any_start = true;
	if (is_err) {
		CHECK(g_grp[cg].status == RTR_MGR_ERROR, "C15 an error state of a socket puts its group into ERROR");
		const bool some_established = some_established_pre && !(pre[cg] == RTR_MGR_ESTABLISHED && !(
			(cg != 0 && pre[0] == RTR_MGR_ESTABLISHED && 0 < g_ng) || (cg != 1 && g_ng > 1 && pre[1] == RTR_MGR_ESTABLISHED) || (cg != 2 && g_ng > 2 && pre[2] == RTR_MGR_ESTABLISHED)));

		if (!some_established && first_closed >= 0) {
			CHECK(g_ml.starts[first_closed][0] == 1, "C15 a group entering ERROR while no group is ESTABLISHED starts the most-preferred closed group");
			for (unsigned int h = 0; h < NGMAX; h++)
				if ((int)h != first_closed)
					CHECK(g_ml.starts[h][0] == 0 && g_ml.starts[h][1] == 0, "C15 ... and no other group");
		} else {
			CHECK(!any_start, "C15 no group is started while some group is ESTABLISHED or none is closed");
		}
	} else {
		CHECK(!any_start, "C15 groups are started only on errors");
	}
	if (g_grp[cg].status == RTR_MGR_ESTABLISHED && pre[cg] == RTR_MGR_CONNECTING && g_ng == 3 && cg == 0)
		CANARY("most preferred group established reachable");
	if (g_ml.stops[2][1] == 1)
		CANARY("shutdown of the least preferred group reachable");
	if (is_err && any_start && first_closed == 2)
		CANARY("failover to the third group reachable");
	if (g_grp[cg].status == RTR_MGR_ESTABLISHED && pre[cg] == RTR_MGR_ERROR)
		CANARY("recovery from error reachable");
}

/* ------------------------------------------------------------------ configuration checks (C15, first sentence) */
static unsigned int g_inits, g_pfx_frees, g_spki_frees;
int rtr_init(struct rtr_socket *s, struct tr_socket *tr, struct pfx_table *pt, struct spki_table *st, const unsigned int rf,
	     const unsigned int ex, const unsigned int rt, enum rtr_interval_mode m, rtr_connection_state_fp fp, void *c, void *g)
{
	g_inits++;
	s->connection_state_fp = fp;
	s->connection_state_fp_param_config = c;
	s->connection_state_fp_param_group = g;
	s->state = RTR_CLOSED;
	s->last_update = 0;
	return VND_BOOL() ? RTR_SUCCESS : RTR_INVALID_PARAM;
}
void pfx_table_init(struct pfx_table *t, pfx_update_fp fp)
{
}
void spki_table_init(struct spki_table *t, spki_update_fp fp)
{
}
void pfx_table_free(struct pfx_table *t)
{
	g_pfx_frees++;
}
void spki_table_free(struct spki_table *t)
{
	g_spki_frees++;
}
int pthread_rwlock_init(pthread_rwlock_t *l, const pthread_rwlockattr_t *a)
{
	return VND_BOOL() ? 0 : 1;
}
void *lrtr_malloc(size_t size)
{
	if (VND_BOOL())
		return NULL;
	void *p = malloc(size);

	ASSUME(p != NULL);
	return p;
}
void lrtr_free(void *p)
{
	free(p);
}
/* libc qsort, ASSUMED contract: the array ends up a permutation sorted by the comparator (here: insertion sort
 * for the at most three groups of the stated domain) */
void qsort(void *base, size_t n, size_t size, int (*cmp)(const void *, const void *))
{
	struct rtr_mgr_group *a = base;

	__CPROVER_assert(size == sizeof(struct rtr_mgr_group) && n <= NGMAX, "qsort on the group array");
	for (unsigned int i = 1; i < NGMAX; i++)
		for (unsigned int j = i; j > 0 && j < n; j--)
			if (cmp(&a[j - 1], &a[j]) > 0) {
				struct rtr_mgr_group t = a[j - 1];

				a[j - 1] = a[j];
				a[j] = t;
			}
}

void h_mgr_init(void)
{
	g_tape_n = 0;
	struct rtr_mgr_group groups[NGMAX];
	const unsigned int n = VND_U8() % (NGMAX + 1);
	bool dup = false, empty = false;

	for (unsigned int g = 0; g < NGMAX; g++) {
		groups[g].sockets = g_sockp[g];
		groups[g].sockets_len = VND_U8() % (NSMAX + 1);
		groups[g].preference = VND_U8();
		groups[g].status = (enum rtr_mgr_status)(VND_U8() & 3);
		for (unsigned int i = 0; i < NSMAX; i++)
			g_sockp[g][i] = &g_sock[g][i];
		if (g < n && groups[g].sockets_len == 0)
			empty = true;
		for (unsigned int h = 0; h < NGMAX; h++)
			if (h < g && g < n && groups[h].preference == groups[g].preference)
				dup = true;
	}
	struct rtr_mgr_config *conf = (struct rtr_mgr_config *)&g_conf; /* any non-NULL junk */
	int r = rtr_mgr_init(&conf, groups, n, 3600, 7200, 600, NULL, NULL, NULL, NULL);

	if (n == 0 || dup || empty)
		CHECK(r != RTR_SUCCESS, "C15 initialisation rejects an empty group list, groups without sockets and duplicate preference values");
	if (r != RTR_SUCCESS) {
		CHECK(conf == NULL, "C15 a rejected configuration hands out no configuration object");
	} else {
		CHECK(conf != NULL && conf->len == n, "C15 an accepted configuration holds all groups");
		tommy_node *node = tommy_list_head(&conf->groups->list);
		unsigned int cnt = 0;
		int last = -1;

		for (unsigned int k = 0; k < NGMAX; k++)
			if (node) {
				struct rtr_mgr_group_node *gn = node->data;

				CHECK((int)gn->group->preference > last, "C15 groups are presented in ascending preference order");
				CHECK(gn->group->status == RTR_MGR_CLOSED, "C15 every group starts CLOSED");
				last = gn->group->preference;
				cnt++;
				node = node->next;
			}
		CHECK(cnt == n && node == NULL, "C15 the list holds exactly the configured groups");
	}
	if (r == RTR_SUCCESS && n == 3)
		CANARY("three groups accepted reachable");
	if (r != RTR_SUCCESS && dup && !empty)
		CANARY("duplicate preference rejected reachable");
	if (r != RTR_SUCCESS && empty)
		CANARY("empty group rejected reachable");
}
