/*
 * C17 -- interval rule of RFC 8210 section 6 for all 2^32 values, all modes, all interval kinds.
 * Three entry points (one proof unit each, see plan.py):
 *   h_c17_range   rtr_check_interval_range  (complete)
 *   h_c17_apply   apply_interval_value      (complete)
 *   h_c17_option  rtr_check_interval_option against the contracts of the two above (complete)
 */
#include "verif.h"

#include "rtrlib/rtr/packets.c" /* the real translation unit */

#include "contracts/intervals.h"
#include "env/env_log.h"

VERIF_MAIN(H_ENTRY)

#define PRE(x) pre_##x
#define SNAP(s)                                                                                        \
	unsigned int pre_expire = (s).expire_interval, pre_refresh = (s).refresh_interval,              \
		     pre_retry = (s).retry_interval
/* pre-state accessor for the harness re-check: maps (s)->field to the snapshot */
#define HOLD(x) hold_##x
static struct rtr_socket g_sock;
static struct rtr_socket g_pre;
#define OLDG(e) (*(__typeof__(e) *)((char *)&g_pre + ((char *)&(e) - (char *)&g_sock)))

static void mk_socket(void)
{
	g_sock.expire_interval = VND_U32();
	g_sock.refresh_interval = VND_U32();
	g_sock.retry_interval = VND_U32();
	g_sock.iv_mode = (enum rtr_interval_mode)VND_U32();
	g_pre = g_sock;
}

void h_c17_range(void)
{
	g_tape_n = 0;
	uint32_t iv = VND_U32(), mn = VND_U32(), mx = VND_U32();
	int r = rtr_check_interval_range(iv, mn, mx);

	CHECK(RANGE_POST(r, iv, mn, mx), "C17 rtr_check_interval_range: -1 below, 1 above, 0 inside");
	CHECK(RTR_BELOW_INTERVAL_RANGE == -1 && RTR_INSIDE_INTERVAL_RANGE == 0 && RTR_ABOVE_INTERVAL_RANGE == 1,
	      "C17 enumerator numbering assumed by the spec");
	if (r == -1)
		CANARY("below reachable");
	if (r == 1)
		CANARY("above reachable");
	if (r == 0)
		CANARY("inside reachable");
}

void h_c17_apply(void)
{
	g_tape_n = 0;
	mk_socket();
	uint32_t iv = VND_U32();
	enum rtr_interval_type t = (enum rtr_interval_type)VND_U32();

	apply_interval_value(&g_sock, iv, t);
	CHECK(APPLY_POST(&g_sock, OLDG, iv, t), "C17 apply_interval_value: exactly the selected interval is set");
	CHECK(RTR_INTERVAL_TYPE_EXPIRATION == SPEC_IVT_EXPIRE && RTR_INTERVAL_TYPE_REFRESH == SPEC_IVT_REFRESH &&
		      RTR_INTERVAL_TYPE_RETRY == SPEC_IVT_RETRY,
	      "C17 enumerator numbering assumed by the spec");
	if (t == RTR_INTERVAL_TYPE_RETRY)
		CANARY("retry reachable");
	if (!SPEC_IVT_VALID(t))
		CANARY("invalid type reachable");
}

void h_c17_option(void)
{
	g_tape_n = 0;
	mk_socket();
	uint32_t iv = VND_U32();
	int mode = VND_INT();
	enum rtr_interval_type t = (enum rtr_interval_type)VND_U32();

	/* the function's precondition (the caller never passes IGNORE_ANY) */
	ASSUME(mode == SPEC_IVM_ACCEPT_ANY || mode == SPEC_IVM_DEFAULT_MIN_MAX || mode == SPEC_IVM_IGNORE_ON_FAILURE);
	int r = rtr_check_interval_option(&g_sock, mode, iv, t);

	CHECK(OPTION_POST(r, &g_sock, OLDG, mode, iv, t), "C17 rtr_check_interval_option: interval = SPEC_INTERVAL(mode, old, sent)");
	CHECK(RTR_INTERVAL_MODE_IGNORE_ANY == SPEC_IVM_IGNORE_ANY && RTR_INTERVAL_MODE_ACCEPT_ANY == SPEC_IVM_ACCEPT_ANY &&
		      RTR_INTERVAL_MODE_DEFAULT_MIN_MAX == SPEC_IVM_DEFAULT_MIN_MAX &&
		      RTR_INTERVAL_MODE_IGNORE_ON_FAILURE == SPEC_IVM_IGNORE_ON_FAILURE && RTR_SUCCESS == 0 && RTR_ERROR == -1,
	      "C17 enumerator numbering assumed by the spec");
	/* consequence stated by the property: outside accept-any the result lies within the range */
	if (SPEC_IVT_VALID(t) && mode != SPEC_IVM_ACCEPT_ANY && SPEC_IN_RANGE(IV_FIELD(&g_pre, t), SPEC_IV_MIN(t), SPEC_IV_MAX(t)))
		CHECK(SPEC_IN_RANGE(IV_FIELD(&g_sock, t), SPEC_IV_MIN(t), SPEC_IV_MAX(t)), "C17 interval stays within the RFC 8210 range");
	if (mode == SPEC_IVM_DEFAULT_MIN_MAX && t == RTR_INTERVAL_TYPE_EXPIRATION && iv > SPEC_EXPIRE_MAX)
		CANARY("clamp-to-max reachable");
	if (mode == SPEC_IVM_IGNORE_ON_FAILURE && t == RTR_INTERVAL_TYPE_RETRY && iv == 0)
		CANARY("ignore-on-failure below range reachable");
	if (!SPEC_IVT_VALID(t))
		CANARY("invalid type reachable");
	CANARY("reachable after call");
}
