/*
 * C05 / C07 / C13 -- the state machine of rtr.c (rtr_fsm_start): an INDUCTIVE INVARIANT of its
 * while(1) loop over the real code, with every function it calls replaced by the executable form of
 * its socket-level contract (contracts/fsm_client.h; each contract is checked against the real body in
 * units/sync.c, units/send.c, units/wait.c).  Unbounded: base + step of the loop contract (plan.py).
 *
 * Ghost state g_f: the session/serial of the last completed synchronisation, whether the socket has
 * records in the tables, the clock.  Obligations that concern single events (what a query carries, what
 * holds when the transport is opened) are assertions inside the stubs.
 */
#include "verif.h"

#include "rtrlib/rtr/rtr.c" /* the real translation unit */

#include "env/env_log.h"
#include "contracts/fsm_client.h"

VERIF_MAIN(h_fsm)

struct fsm_ghost {
	bool have; /* a synchronisation completed and was not reset since */
	uint32_t sess;
	uint32_t serial;
	bool has_data; /* the socket has records in the prefix or router-key table */
	time_t now; /* the monotonic clock */
	unsigned int opens;
};
static struct fsm_ghost g_f;
static struct rtr_socket g_sock;
static struct tr_socket g_tr;
static struct pfx_table g_pt;
static struct spki_table g_st;

#define CLOCK_MAX ((time_t)1 << 40)
/* the invariant (also given to the loop contract, see plan.py: FSM_INV must stay textually equal) */
#define FSM_INV(s)                                                                                     \
	((s)->version <= 1 && (!(s)->request_session_id ? (g_f.have && (s)->session_id == g_f.sess && (s)->serial_number == g_f.serial) : 1) && \
	 ((s)->last_update == 0 ? (!g_f.has_data && (s)->request_session_id) : 1) &&                   \
	 ((s)->state == RTR_ESTABLISHED ? !(s)->request_session_id : 1) && ((s)->state == RTR_RESET ? (s)->request_session_id : 1) && \
	 (s)->last_update <= g_f.now &&                                                                \
	 g_f.now > 0 && g_f.now < CLOCK_MAX && (s)->last_update >= 0)

/* ------------------------------------------------------------------ environment */
int lrtr_get_monotonic_time(time_t *seconds)
{
	/* ASSUMPTION: the monotonic clock does not fail, does not run backwards, stays below 2^40 s */
	time_t adv = (time_t)VND_U32();

	ASSUME(g_f.now + adv < CLOCK_MAX);
	g_f.now += adv;
	*seconds = g_f.now;
	return 0;
}
unsigned int sleep(unsigned int seconds)
{
	time_t adv = (time_t)VND_U32();

	ASSUME(g_f.now + adv < CLOCK_MAX);
	g_f.now += adv;
	return 0;
}
int pthread_setcancelstate(int state, int *oldstate)
{
	if (oldstate)
		*oldstate = 0;
	return 0;
}
void pthread_exit(void *retval)
{
	CANARY("shutdown exit reachable");
	ASSUME(0); /* does not return */
}
int tr_open(struct tr_socket *socket)
{
	/* C07: whenever the client (re)connects, data older than the expire interval is gone and the
	 * conversation restarts with a Reset Query */
	__CPROVER_assert(g_sock.last_update == 0 || g_f.now <= g_sock.last_update + (time_t)g_sock.expire_interval,
			 "C07 on (re)connect no data is older than the expire interval");
	__CPROVER_assert(g_sock.last_update != 0 || (!g_f.has_data && g_sock.request_session_id),
			 "C07 on (re)connect a socket without time stamp holds no records and will send a Reset Query");
	__CPROVER_assert(!g_sock.has_received_pdus, "C13 the first-PDU flag is cleared for every connection");
	g_f.opens++;
	CANARY("connect reachable");
	return VND_BOOL() ? 0 : -1;
}
void tr_close(struct tr_socket *socket)
{
}
int pfx_table_src_remove(struct pfx_table *pfx_table, const struct rtr_socket *socket)
{
	/* contract of C02 in client reading: all records of this socket are gone (ASSUMPTION: no allocation
	 * failure while purging) */
	__CPROVER_assert(pfx_table == &g_pt && socket == &g_sock, "purge addresses this socket's table");
	return 0;
}
int spki_table_src_remove(struct spki_table *spki_table, const struct rtr_socket *socket)
{
	__CPROVER_assert(spki_table == &g_st && socket == &g_sock, "purge addresses this socket's table");
	/* both tables are purged together: the ghost flag covers both, cleared by the second call */
	g_f.has_data = false;
	CANARY("purge reachable");
	return 0;
}

/* ------------------------------------------------------------------ contracts of packets.c, executable */
void rtr_change_socket_state(struct rtr_socket *s, const enum rtr_socket_state new_state)
{
	struct rtr_socket p = *s;

	s->state = (enum rtr_socket_state)VND_U8();
	ASSUME(CSS_POST(s, &p, new_state));
}
static void havoc_sync_frame(struct rtr_socket *s)
{
	s->version = VND_U8();
	s->has_received_pdus = VND_BOOL();
	s->state = (enum rtr_socket_state)VND_U8();
	ASSUME(s->state <= RTR_CLOSED);
	s->session_id = VND_U16();
	s->serial_number = VND_U32();
	s->request_session_id = VND_BOOL();
	s->last_update = (time_t)VND_U64();
	s->is_resetting = VND_BOOL();
	s->refresh_interval = VND_U32();
	s->expire_interval = VND_U32();
	s->retry_interval = VND_U32();
}
int rtr_sync(struct rtr_socket *s)
{
	struct rtr_socket p = *s;
	time_t now;
	bool done = VND_BOOL();
	int r = VND_INT();

	__CPROVER_assert(s == &g_sock && s->version <= 1, "precondition of rtr_sync");
	lrtr_get_monotonic_time(&now);
	havoc_sync_frame(s);
	ASSUME(SYNC_POST(r, s, &p, now, done));
	ASSUME(!(r == -1 && done)); /* only a failing clock does that (units/sync.c); the clock is assumed not to fail */
	ASSUME((s->state == RTR_SHUTDOWN) == (p.state == RTR_SHUTDOWN));
	if (done) {
		/* a payload phase ended with End of Data (session s, serial n): from now on queries carry them */
		g_f.have = true;
		g_f.sess = s->session_id;
		g_f.serial = s->serial_number;
		g_f.has_data = VND_BOOL();
		CANARY("completed sync reachable");
	} else if (VND_BOOL()) {
		/* C03 in client reading: a failed synchronisation never leaves more of this socket's records
		 * than before; they may all be gone (purge after a failed undo) */
		g_f.has_data = false;
	}
	if (!done && !p.request_session_id && s->request_session_id)
		g_f.has_data = false; /* falling back to a reset goes with a purge (C03 contract) */
	return r;
}
int rtr_send_serial_query(struct rtr_socket *s)
{
	struct rtr_socket p = *s;
	int r = VND_INT();

	__CPROVER_assert(!s->request_session_id, "C05 a Serial Query is sent only while a session is held");
	__CPROVER_assert(g_f.have && s->session_id == g_f.sess && s->serial_number == g_f.serial,
			 "C05 a Serial Query carries exactly the session and serial of the last completed synchronisation");
	CANARY("serial query reachable");
	s->state = (enum rtr_socket_state)VND_U8();
	ASSUME(SENDQ_POST(r, s, &p));
	return r;
}
int rtr_send_reset_query(struct rtr_socket *s)
{
	struct rtr_socket p = *s;
	int r = VND_INT();

	__CPROVER_assert(s->request_session_id, "C05 a Reset Query is sent exactly when no session is held (fresh, reset, no data, expired)");
	CANARY("reset query reachable");
	s->state = (enum rtr_socket_state)VND_U8();
	ASSUME(SENDQ_POST(r, s, &p));
	return r;
}
int rtr_wait_for_sync(struct rtr_socket *s)
{
	struct rtr_socket p = *s;
	int r = VND_INT();
	time_t now;

	lrtr_get_monotonic_time(&now);
	s->state = (enum rtr_socket_state)VND_U8();
	s->version = VND_U8();
	s->has_received_pdus = VND_BOOL();
	ASSUME(s->state <= RTR_CLOSED);
	ASSUME(WAIT_POST(r, s, &p));
	return r;
}

static void *rtr_fsm_start(struct rtr_socket *rtr_socket)
__CPROVER_requires(rtr_socket == &g_sock && FSM_INV(rtr_socket))
__CPROVER_ensures(1)
__CPROVER_assigns(__CPROVER_object_whole(rtr_socket), __CPROVER_object_whole(&g_f));

void h_fsm(void)
{
	g_tape_n = 0;
	/* any socket state the invariant admits: a fresh socket (rtr_init, see units/c17_init.c) and a socket
	 * restarted after rtr_stop both satisfy it */
	havoc_sync_frame(&g_sock);
	g_sock.tr_socket = &g_tr;
	g_sock.pfx_table = &g_pt;
	g_sock.spki_table = &g_st;
	g_sock.connection_state_fp = NULL;
	g_sock.iv_mode = (enum rtr_interval_mode)(VND_U8() & 3);
	g_f.have = VND_BOOL();
	g_f.sess = VND_U16();
	g_f.serial = VND_U32();
	g_f.has_data = VND_BOOL();
	g_f.now = (time_t)VND_U64();
	g_f.opens = 0;
	ASSUME(FSM_INV(&g_sock));
	/* rtr_init establishes the invariant (fresh socket) */
	{
		struct rtr_socket f = g_sock;

		f.request_session_id = true;
		f.last_update = 0;
		f.serial_number = 0;
		f.version = 1;
		f.state = RTR_CLOSED;
		if (!g_f.has_data)
			CHECK(((&f)->version <= 1 && (&f)->request_session_id && (&f)->last_update == 0), "C05 a fresh socket satisfies the invariant");
	}
	rtr_fsm_start(&g_sock);
	CANARY("return for a socket already shut down reachable");
}
