/*
 * C02 -- trie_remove (recursive) on a one-level window, verified with --enforce-contract-rec: the node under
 * verification (g_R, with parent g_P and children g_L / g_Rt, any of which may be absent) is concrete, the
 * recursive call on a child is replaced by the SAME contract (induction hypothesis), so the proof is
 * independent of the depth and of the address family width.
 * Contract (key found at this node = the case the table uses; descent towards a key elsewhere is the other
 * branch):
 *   - a leaf is unlinked from its parent and returned
 *   - otherwise the payload of the child with the SHORTER prefix (ties: the right one unless the left is
 *     strictly shorter) is pulled up -- so that "child length >= parent length" keeps holding towards the
 *     other child --, that child receives the payload being removed, and the removal continues there
 *   - the node finally returned carries the removed payload (the caller frees it), no node's length ever
 *     decreases, nothing outside the subtree and the parent's child pointer is written
 * Unbounded modulo the induction step that -rec assumes (termination of the recursion is argued from the
 * finite height, not checked).
 */
#include "verif.h"

#include "rtrlib/pfx/trie/trie.c" /* the real translation unit */

#include "spec/spec.h"
#include "contracts/bits.h"
#include "units/mk_addr.h"

VERIF_MAIN(h_trie_remove)

/* all trie nodes live in one pool object: "writes only trie nodes" is then a frame that does not depend on the
 * depth of the recursion (a node-by-node footprint would grow with every level) */
static struct trie_node g_pool[5];
#define g_P g_pool[0] /* parent */
#define g_R g_pool[1] /* the node */
#define g_L g_pool[2] /* children */
#define g_Rt g_pool[3]
#define g_X g_pool[4] /* an opaque grandchild */
static int g_dR, g_dL, g_dRt; /* payload objects */
/* ghost: the window before the call */
static struct trie_node g_R0, g_L0, g_Rt0;
static bool g_hasP, g_hasL, g_hasRt;

#define CHILD_LEN_OK(n) (((n)->lchild == NULL || (n)->lchild->len >= (n)->len) && ((n)->rchild == NULL || (n)->rchild->len >= (n)->len))

struct trie_node *trie_remove(struct trie_node *root, const struct lrtr_ip_addr *prefix, const uint8_t mask_len, const unsigned int lvl)
__CPROVER_requires(__CPROVER_rw_ok(root, sizeof(*root)) && __CPROVER_r_ok(prefix, sizeof(*prefix)) && IPVER_OK(prefix->ver) && IPVER_OK(root->prefix.ver))
__CPROVER_requires((root->lchild == NULL || __CPROVER_rw_ok(root->lchild, sizeof(*root))) && (root->rchild == NULL || __CPROVER_rw_ok(root->rchild, sizeof(*root))))
__CPROVER_requires(CHILD_LEN_OK(root) && root->len == mask_len && spec_ip_eq(root->prefix, *prefix))
__CPROVER_ensures(__CPROVER_return_value != NULL && __CPROVER_return_value->data == __CPROVER_old(root->data))
__CPROVER_ensures(__CPROVER_return_value == root || (root->len >= __CPROVER_old(root->len) && CHILD_LEN_OK(root)))
__CPROVER_requires(__CPROVER_same_object(root, g_pool))
__CPROVER_assigns(__CPROVER_object_whole(g_pool));

void h_trie_remove(void)
{
	g_tape_n = 0;
	g_hasP = VND_BOOL();
	g_hasL = VND_BOOL();
	g_hasRt = VND_BOOL();
	const bool v6 = VND_BOOL();
	/* children first (pointers are assigned, never merely constrained) */
	g_X.len = 255;
	g_X.lchild = g_X.rchild = NULL;
	g_L.prefix = v6 ? mk_addr6() : mk_addr4();
	g_L.len = VND_U8();
	g_L.data = &g_dL;
	g_L.parent = &g_R;
	g_L.lchild = VND_BOOL() ? &g_X : NULL;
	g_L.rchild = VND_BOOL() ? &g_X : NULL;
	g_Rt.prefix = v6 ? mk_addr6() : mk_addr4();
	g_Rt.len = VND_U8();
	g_Rt.data = &g_dRt;
	g_Rt.parent = &g_R;
	g_Rt.lchild = VND_BOOL() ? &g_X : NULL;
	g_Rt.rchild = VND_BOOL() ? &g_X : NULL;
	g_R.prefix = v6 ? mk_addr6() : mk_addr4();
	g_R.len = VND_U8();
	g_R.data = &g_dR;
	g_R.lchild = g_hasL ? &g_L : NULL;
	g_R.rchild = g_hasRt ? &g_Rt : NULL;
	g_R.parent = g_hasP ? &g_P : NULL;
	g_P.lchild = VND_BOOL() ? &g_R : &g_X;
	g_P.rchild = g_P.lchild == &g_R ? &g_X : &g_R;
	g_P.parent = NULL;
	/* the trie invariant around the node: children are not shorter than their parent */
	ASSUME(CHILD_LEN_OK(&g_R));
	g_R0 = g_R;
	g_L0 = g_L;
	g_Rt0 = g_Rt;
	const struct lrtr_ip_addr key = g_R.prefix;
	struct trie_node *r = trie_remove(&g_R, &key, g_R.len, VND_U8());

	CHECK(r != NULL && r->data == &g_dR, "C02 remove: the node handed back carries the removed payload");
	if (!g_hasL && !g_hasRt) {
		CHECK(r == &g_R, "C02 remove: a leaf is removed itself");
		if (g_hasP)
			CHECK((g_P.lchild == NULL) != (g_P.rchild == NULL) && g_P.lchild != &g_R && g_P.rchild != &g_R, "C02 remove: the leaf is unlinked from its parent, the sibling link stays");
	} else {
		/* which child must come up: the one with the shorter prefix */
		const bool left = g_hasL && (!g_hasRt || g_L0.len < g_Rt0.len);
		const struct trie_node *c0 = left ? &g_L0 : &g_Rt0;

		CHECK(r != &g_R, "C02 remove: an inner node stays in place");
		CHECK(g_R.len == c0->len && spec_ip_eq(g_R.prefix, c0->prefix) && g_R.data == c0->data, "C02 remove: the payload of the child with the shorter prefix is pulled up");
		CHECK(CHILD_LEN_OK(&g_R), "C02 remove: children are still not shorter than their parent");
		CHECK(g_R.parent == g_R0.parent && g_R.lchild == g_R0.lchild && g_R.rchild == g_R0.rchild, "C02 remove: the node keeps its place in the tree");
	}
	if (g_hasL && g_hasRt && g_L0.len < g_Rt0.len)
		CANARY("two children, left shorter reachable");
	if (g_hasL && g_hasRt && g_L0.len > g_Rt0.len && g_R0.len < g_Rt0.len)
		CANARY("two children, right shorter, node shorter than both reachable");
	if (!g_hasL && !g_hasRt && g_hasP)
		CANARY("leaf with parent reachable");
	if (v6)
		CANARY("ipv6 reachable");
}
