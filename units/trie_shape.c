/*
 * C02 -- trie_remove and trie_insert (the REAL recursive code) on every trie shape of up to TS_DEPTH levels
 * below the node operated on (a complete binary tree of 2^TS_DEPTH - 1 slots, each present or absent, any
 * prefixes / lengths that satisfy the trie invariant "children are not shorter than their parent").
 *   h_shape_remove  after removing the node's payload: the node handed back is detached and carries the removed
 *                   payload; the remaining nodes carry exactly the other payloads, each once; "children are not
 *                   shorter than their parent" still holds everywhere; parent links are consistent
 *   h_shape_insert  after inserting a new node below: every old payload and the new one are in the tree, each
 *                   once; the length invariant and the parent links hold; the node that went down took the
 *                   branch selected by ITS OWN bit at each level
 * BOUNDED stand-in (depth 3 quick / 4 thorough): the recursion is unwound.  The unbounded version
 * (--enforce-contract-rec on a one-level window) needs a frame for "the subtree below", which a code contract
 * cannot name; see DESIGN.md, C02.
 */
#include "verif.h"

#include "rtrlib/pfx/trie/trie.c" /* the real translation unit */

#include "spec/spec.h"
#include "contracts/bits.h"
#include "units/mk_addr.h"

#ifndef H_ENTRY
#define H_ENTRY h_shape_remove
#endif
VERIF_MAIN(H_ENTRY)

#ifndef TS_DEPTH
#define TS_DEPTH 3
#endif
#define TS_N ((1u << TS_DEPTH) - 1) /* heap-ordered slots: children of i are 2i+1, 2i+2 */
static struct trie_node g_t[TS_N + 1]; /* last slot: the new node for insert */
static bool g_present[TS_N];
static int g_payload[TS_N + 1];
static unsigned int g_lvl0; /* level of the top node */
static unsigned int g_depth[TS_N + 1];
static unsigned int g_path[TS_N + 1]; /* branch decisions from the top node: bit d = side taken at depth d */
/* bit number k of a prefix (0 = most significant), total for k beyond the width */
static unsigned int pbit(const struct lrtr_ip_addr *a, unsigned int k)
{
	if (a->ver == LRTR_IPV6)
		return k < 128 ? SPEC_BIT128(a->u.addr6.addr, k < 128 ? k : 0) : 0;
	return k < 32 ? SPEC_BIT32(a->u.addr4.addr, k < 32 ? k : 0) : 0;
}
/* the first `depth` bits below level g_lvl0 of a prefix equal the branch decisions that lead to its node */
static bool on_path(const struct lrtr_ip_addr *a, unsigned int depth, unsigned int path)
{
	bool ok = true;

	for (unsigned int d = 0; d < TS_DEPTH + 1; d++)
		if (d < depth && pbit(a, g_lvl0 + d) != ((path >> d) & 1u))
			ok = false;
	return ok;
}

static void mk_tree(bool v6, unsigned int lvl0)
{
	for (unsigned int i = 0; i < TS_N; i++) {
		g_present[i] = (i == 0) ? true : (g_present[(i - 1) / 2] && VND_BOOL());
		g_t[i].prefix = v6 ? mk_addr6() : mk_addr4();
		g_t[i].len = VND_U8();
		g_t[i].data = &g_payload[i];
		g_t[i].parent = i ? &g_t[(i - 1) / 2] : NULL;
		g_t[i].lchild = NULL;
		g_t[i].rchild = NULL;
	}
	for (unsigned int i = 0; i < TS_N; i++) {
		if (2 * i + 1 < TS_N && g_present[2 * i + 1])
			g_t[i].lchild = &g_t[2 * i + 1];
		if (2 * i + 2 < TS_N && g_present[2 * i + 2])
			g_t[i].rchild = &g_t[2 * i + 2];
		/* trie invariant: children are not shorter than their parent, and hang on the side their own bit selects */
		if (i && g_present[i]) {
			unsigned int d = 0, path = 0;

			for (unsigned int j = i; j; j = (j - 1) / 2)
				d++;
			/* branch decisions from the top node down to slot i */
			unsigned int dd = d;

			for (unsigned int j = i; j; j = (j - 1) / 2) {
				dd--;
				path |= ((j % 2) ? 0u : 1u) << dd;
			}
			ASSUME(g_t[i].len >= g_t[(i - 1) / 2].len);
			ASSUME(on_path(&g_t[i].prefix, d, path));
		}
	}
}

/* invariants over whatever hangs below slot 0 now, following the pointers (bounded walk over the slots) */
static bool reach[TS_N + 1];
static unsigned int count_payload[TS_N + 1];
static bool g_len_ok, g_parent_ok, g_stray, g_side_ok;
static void survey(struct trie_node *root)
{
	for (unsigned int i = 0; i <= TS_N; i++) {
		reach[i] = false;
		count_payload[i] = 0;
	}
	g_len_ok = g_parent_ok = g_side_ok = true;
	g_stray = false;
	for (unsigned int i = 0; i <= TS_N; i++) {
		g_depth[i] = 0;
		g_path[i] = 0;
	}
	if (root) {
		if (!__CPROVER_same_object(root, g_t)) {
			g_stray = true;
			return;
		}
		reach[root - g_t] = true;
	}
	/* breadth-first closure: at most TS_N + 1 rounds */
	for (unsigned int round = 0; round <= TS_N; round++)
		for (unsigned int i = 0; i <= TS_N; i++)
			if (reach[i]) {
				struct trie_node *c[2] = {g_t[i].lchild, g_t[i].rchild};

				for (unsigned int k = 0; k < 2; k++)
					if (c[k]) {
						if (!__CPROVER_same_object(c[k], g_t)) {
							g_stray = true;
						} else {
							reach[c[k] - g_t] = true;
							g_depth[c[k] - g_t] = g_depth[i] + 1;
							g_path[c[k] - g_t] = g_path[i] | (k << g_depth[i]);
							/* a node's prefix bits are the branch decisions that lead to it (all of them) */
							if (!on_path(&c[k]->prefix, g_depth[i] + 1, g_path[c[k] - g_t]))
								g_side_ok = false;
							if (c[k]->len < g_t[i].len)
								g_len_ok = false;
							if (c[k]->parent != &g_t[i])
								g_parent_ok = false;
						}
					}
			}
	for (unsigned int i = 0; i <= TS_N; i++)
		if (reach[i] && g_t[i].data) {
			if (__CPROVER_same_object(g_t[i].data, g_payload))
				count_payload[(int *)g_t[i].data - g_payload]++;
			else
				g_stray = true;
		}
}

void h_shape_remove(void)
{
	g_tape_n = 0;
	const bool v6 = VND_BOOL();
	const unsigned int lvl = VND_U8();

	ASSUME(lvl + TS_DEPTH <= (v6 ? 128u : 32u));
	g_lvl0 = lvl;
	mk_tree(v6, lvl);
	const struct lrtr_ip_addr key = g_t[0].prefix;
	struct trie_node *r = trie_remove(&g_t[0], &key, g_t[0].len, lvl);

	CHECK(r != NULL && __CPROVER_same_object(r, g_t), "C02 remove: a node of the tree is handed back");
	CHECK(r->data == &g_payload[0], "C02 remove: the node handed back carries the removed payload (the caller frees it)");
	const bool root_gone = (r == &g_t[0]);

	survey(root_gone ? NULL : &g_t[0]);
	CHECK(!g_stray, "C02 remove: links stay inside the tree");
	CHECK(!reach[r - g_t], "C02 remove: the node handed back is no longer reachable");
	CHECK(g_len_ok, "C02 remove: children are still not shorter than their parent, everywhere");
	CHECK(g_parent_ok, "C02 remove: parent links are consistent");
	CHECK(g_side_ok, "C01/C02 remove: every node's prefix bits are still the branch decisions that lead to it (covering records stay on the query's path)");
	for (unsigned int i = 1; i < TS_N; i++)
		CHECK(count_payload[i] == (g_present[i] ? 1u : 0u), "C02 remove: every other payload is still in the tree exactly once");
	CHECK(count_payload[0] == 0, "C02 remove: the removed payload is gone");
	if (g_present[1] && g_present[2] && g_t[2].len < g_t[1].len)
		CANARY("two children, right shorter reachable");
	if (root_gone)
		CANARY("leaf root reachable");
#if TS_DEPTH >= 3
	if (g_present[3] && g_present[4] && g_present[1] && !g_present[2])
		CANARY("chain through the left child with two grandchildren reachable");
#endif
}

void h_shape_insert(void)
{
	g_tape_n = 0;
	const bool v6 = VND_BOOL();
	const unsigned int lvl = VND_U8();

	ASSUME(lvl + TS_DEPTH <= (v6 ? 128u : 32u));
	g_lvl0 = lvl;
	mk_tree(v6, lvl);
	struct trie_node *n = &g_t[TS_N];

	n->prefix = v6 ? mk_addr6() : mk_addr4();
	n->len = VND_U8();
	n->data = &g_payload[TS_N];
	n->parent = NULL;
	n->lchild = NULL;
	n->rchild = NULL;
	/* insertion point as trie_lookup_exact delivers it: no node above is longer than the new one ... only the
	 * node itself may be */
	trie_insert(&g_t[0], n, lvl);
	survey(&g_t[0]);
	CHECK(!g_stray, "C02 insert: links stay inside the tree");
	CHECK(g_len_ok, "C02 insert: children are not shorter than their parent, everywhere (shorter prefixes stay above)");
	CHECK(g_parent_ok, "C02 insert: parent links are consistent");
	CHECK(g_side_ok, "C01/C02 insert: every node's prefix bits, also a displaced one's, are the branch decisions that lead to it");
	for (unsigned int i = 0; i <= TS_N; i++)
		CHECK(count_payload[i] == ((i == TS_N || g_present[i]) ? 1u : 0u), "C02 insert: every old payload and the new one are in the tree exactly once");
	if (g_t[0].data == &g_payload[TS_N])
		CANARY("new payload swapped into the top node reachable");
	if (reach[TS_N] && n->parent != &g_t[0] && n->parent != NULL)
		CANARY("new node attached below the second level reachable");
}
