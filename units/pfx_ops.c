/*
 * C02 / C09 / C16 / C18 -- pfx_table_add and pfx_table_remove (trie-pfx.c) as compositions: the real glue code
 * is verified against the CONTRACTS of its callees (exact lookup, element search / append / delete, node
 * creation, trie insert / remove), each of which is verified on its own body elsewhere (lookup_exact_v4,
 * find_elem, append_elem, del_elem, shape_insert, shape_remove).  The callee outcomes are chosen by a ghost
 * script (every combination), so the units are complete for the glue code (loop-free).
 *   add:    duplicate -> PFX_DUPLICATE_RECORD, nothing called, nobody notified; new element of an existing node ->
 *           appended; new prefix -> node created and inserted at the parent / level the lookup returned; empty
 *           family -> node becomes the root OF THE RECORD'S FAMILY; every failure of a callee -> PFX_ERROR,
 *           no notification; success -> exactly one 'added' notification carrying the record
 *   remove: unknown prefix or element -> PFX_RECORD_NOT_FOUND untouched; element deleted; a node left without
 *           elements is removed from the trie with the lookup's level, the family root is cleared iff the root
 *           itself was handed back, node and payload are released; exactly one 'removed' notification
 *   lock:   every access to the table roots lies inside one write-locked section (roots are junk outside)
 */
#include "verif.h"

#include "rtrlib/pfx/trie/trie-pfx.c" /* the real translation unit */

#include "env/env_lock.h"
#include "units/mk_addr.h"

#ifndef H_ENTRY
#define H_ENTRY h_pfx_add
#endif
VERIF_MAIN(H_ENTRY)

static struct pfx_table g_tab;
static struct trie_node g_root4, g_root6, g_node, g_newnode, g_rmnode;
static struct node_data g_ndata, g_rmdata;
static struct data_elem g_elems[2];
static struct pfx_record g_rec;

/* ghost script: what the callees answer */
struct script {
	bool lk_found;
	struct trie_node *lk_node;
	unsigned int lk_lvl;
	bool fe_found;
	unsigned int fe_idx;
	bool ap_ok, cn_ok, de_ok;
	unsigned int de_newlen;
	struct trie_node *rm_ret;
};
static struct script g_sc;
struct calls {
	unsigned int lookup, find, append, create, insert, del, rm, frees, cb;
	bool bad_args;
	struct pfx_record cb_rec;
	bool cb_added;
	bool cb_locked; /* a callback ran while the table lock was held */
};
static struct calls g_c;

static void update_cb(struct pfx_table *t, const struct pfx_record r, const bool added)
{
	g_c.cb++;
	g_c.cb_rec = r;
	g_c.cb_added = added;
	if (t != &g_tab)
		g_c.bad_args = true;
	if (g_lock.held)
		g_c.cb_locked = true;
}
void lrtr_free(void *p)
{
	g_c.frees++;
	/* only the node handed back by trie_remove and the payload it carries may be released */
	if (p != g_sc.rm_ret && (g_sc.rm_ret == NULL || p != g_sc.rm_ret->data))
		g_c.bad_args = true;
}

/* ---- callee contracts, client reading (script + call log) */
struct trie_node *trie_lookup_exact(struct trie_node *root_node, const struct lrtr_ip_addr *prefix, const uint8_t mask_len, unsigned int *lvl,
				    bool *found)
__CPROVER_requires(__CPROVER_w_ok(lvl, sizeof(*lvl)) && __CPROVER_w_ok(found, sizeof(*found)) && *lvl == 0)
__CPROVER_requires(prefix == &g_rec.prefix && mask_len == g_rec.min_len && g_lock.held == 2)
__CPROVER_requires(root_node == (g_rec.prefix.ver == LRTR_IPV4 ? g_lock.real4 : g_lock.real6))
__CPROVER_ensures(root_node == NULL ? (__CPROVER_return_value == NULL && !*found)
				    : (*found == g_sc.lk_found && __CPROVER_return_value == g_sc.lk_node && *lvl == g_sc.lk_lvl))
__CPROVER_ensures(g_c.lookup == __CPROVER_old(g_c.lookup) + 1)
__CPROVER_assigns(*lvl, *found, g_c.lookup);

static struct data_elem *pfx_table_find_elem(const struct node_data *data, const struct pfx_record *record, unsigned int *index)
__CPROVER_requires(data == &g_ndata && record == &g_rec && g_lock.held == 2)
__CPROVER_ensures(__CPROVER_return_value == (g_sc.fe_found ? &g_elems[g_sc.fe_idx & 1] : NULL) && (index == NULL || !g_sc.fe_found || *index == (g_sc.fe_idx & 1)))
__CPROVER_ensures(g_c.find == __CPROVER_old(g_c.find) + 1)
__CPROVER_assigns(index != NULL: *index; g_c.find);

static int pfx_table_append_elem(struct node_data *data, const struct pfx_record *record)
__CPROVER_requires(data == &g_ndata && record == &g_rec && g_lock.held == 2)
__CPROVER_ensures(__CPROVER_return_value == (g_sc.ap_ok ? PFX_SUCCESS : PFX_ERROR) && g_c.append == __CPROVER_old(g_c.append) + 1)
__CPROVER_assigns(g_c.append);

static int pfx_table_create_node(struct trie_node **node, const struct pfx_record *record)
__CPROVER_requires(__CPROVER_w_ok(node, sizeof(*node)) && record == &g_rec && g_lock.held == 2)
__CPROVER_ensures(__CPROVER_return_value == (g_sc.cn_ok ? PFX_SUCCESS : PFX_ERROR) && (g_sc.cn_ok ? *node == &g_newnode : 1) &&
		  g_c.create == __CPROVER_old(g_c.create) + 1)
__CPROVER_assigns(*node, g_c.create);

void trie_insert(struct trie_node *root, struct trie_node *new_node, const unsigned int level)
__CPROVER_requires(root == g_sc.lk_node && new_node == &g_newnode && level == g_sc.lk_lvl && g_lock.held == 2)
__CPROVER_ensures(g_c.insert == __CPROVER_old(g_c.insert) + 1)
__CPROVER_assigns(g_c.insert);

static int pfx_table_del_elem(struct node_data *data, const unsigned int index)
__CPROVER_requires(data == &g_ndata && index == (g_sc.fe_idx & 1) && g_lock.held == 2)
__CPROVER_ensures(__CPROVER_return_value == (g_sc.de_ok ? PFX_SUCCESS : PFX_ERROR) && (g_sc.de_ok ? g_ndata.len == g_sc.de_newlen : 1) &&
		  g_c.del == __CPROVER_old(g_c.del) + 1)
__CPROVER_assigns(g_ndata.len, g_c.del);

struct trie_node *trie_remove(struct trie_node *root_node, const struct lrtr_ip_addr *prefix, const uint8_t mask_len, const unsigned int level)
__CPROVER_requires(root_node == g_sc.lk_node && prefix == &g_rec.prefix && mask_len == g_rec.min_len && level == g_sc.lk_lvl && g_lock.held == 2)
__CPROVER_ensures(__CPROVER_return_value == g_sc.rm_ret && g_c.rm == __CPROVER_old(g_c.rm) + 1)
__CPROVER_assigns(g_c.rm);

static struct trie_node *g_r4, *g_r6; /* roots before the call */
static void mk(void)
{
	g_rec.prefix = mk_addr_any();
	g_rec.min_len = VND_U8();
	g_rec.max_len = VND_U8();
	g_rec.asn = VND_U32();
	g_rec.socket = (const struct rtr_socket *)(uintptr_t)(VND_U8() & 3);
	g_r4 = VND_BOOL() ? &g_root4 : NULL;
	g_r6 = VND_BOOL() ? &g_root6 : NULL;
	g_tab.update_fp = VND_BOOL() ? update_cb : NULL;
	lock_setup(&g_tab, g_r4, g_r6);
	struct trie_node *famroot = g_rec.prefix.ver == LRTR_IPV4 ? g_r4 : g_r6;

	g_sc.lk_found = VND_BOOL();
	g_sc.lk_node = VND_BOOL() ? &g_node : famroot;
	ASSUME(g_sc.lk_node != NULL || famroot == NULL);
	g_sc.lk_lvl = VND_U8();
	g_sc.fe_found = VND_BOOL();
	g_sc.fe_idx = VND_U8();
	g_sc.ap_ok = VND_BOOL();
	g_sc.cn_ok = VND_BOOL();
	g_sc.de_ok = VND_BOOL();
	g_sc.de_newlen = VND_U8() & 1;
	g_sc.rm_ret = VND_BOOL() ? g_sc.lk_node : &g_rmnode;
	g_node.data = &g_ndata;
	g_root4.data = &g_ndata;
	g_root6.data = &g_ndata;
	g_rmnode.data = &g_rmdata;
	g_rmdata.len = 0;
	g_ndata.len = 1 + (VND_U8() & 1);
	g_ndata.ary = g_elems;
	struct calls z = {0};

	g_c = z;
}

int pfx_table_add(struct pfx_table *pfx_table, const struct pfx_record *record)
__CPROVER_requires(pfx_table == &g_tab && record == &g_rec)
__CPROVER_ensures(__CPROVER_return_value == PFX_SUCCESS || __CPROVER_return_value == PFX_ERROR || __CPROVER_return_value == PFX_DUPLICATE_RECORD)
__CPROVER_assigns(g_tab.ipv4, g_tab.ipv6, __CPROVER_object_whole(&g_lock), __CPROVER_object_whole(&g_c));

void h_pfx_add(void)
{
	g_tape_n = 0;
	mk();
	struct trie_node *famroot = g_rec.prefix.ver == LRTR_IPV4 ? g_r4 : g_r6;
	int r = pfx_table_add(&g_tab, &g_rec);

	CHECK(!g_lock.error && g_lock.held == 0 && g_lock.acquisitions == 1, "C16 add: one write-locked section, released on every path");
	CHECK(!g_c.bad_args && !g_c.cb_locked, "C09 callbacks name this table and run after the lock is released");
	if (famroot == NULL) {
		/* empty family */
		CHECK(g_c.create == 1 && g_c.find == 0 && g_c.append == 0 && g_c.insert == 0, "C02 add into an empty family creates a node");
		if (g_sc.cn_ok) {
			CHECK(r == PFX_SUCCESS && (g_rec.prefix.ver == LRTR_IPV4 ? (g_lock.real4 == &g_newnode && g_lock.real6 == g_r6) : (g_lock.real6 == &g_newnode && g_lock.real4 == g_r4)),
			      "C02 the first record of a family becomes the root of THAT family, the other family is untouched");
		} else {
			CHECK(r == PFX_ERROR && g_lock.real4 == g_r4 && g_lock.real6 == g_r6, "C18 failed node creation: error, roots untouched");
		}
	} else {
		CHECK(g_lock.real4 == g_r4 && g_lock.real6 == g_r6 && g_c.lookup == 1, "C02 add below an existing root leaves the roots alone");
		if (g_sc.lk_found && g_sc.fe_found)
			CHECK(r == PFX_DUPLICATE_RECORD && g_c.append == 0 && g_c.create == 0 && g_c.insert == 0, "C02 adding a present record reports a duplicate and changes nothing");
		else if (g_sc.lk_found)
			CHECK(g_c.append == 1 && g_c.create == 0 && g_c.insert == 0 && r == (g_sc.ap_ok ? PFX_SUCCESS : PFX_ERROR), "C02 a new record of a known prefix is appended to that node");
		else
			CHECK(g_c.append == 0 && g_c.create == 1 && g_c.insert == (g_sc.cn_ok ? 1u : 0u) && r == (g_sc.cn_ok ? PFX_SUCCESS : PFX_ERROR),
			      "C02 a record of a new prefix gets a node that is inserted at the parent and level the exact lookup returned");
	}
	if (r == PFX_SUCCESS && g_tab.update_fp)
		CHECK(g_c.cb == 1 && g_c.cb_added && g_c.cb_rec.asn == g_rec.asn && g_c.cb_rec.min_len == g_rec.min_len && g_c.cb_rec.max_len == g_rec.max_len &&
			      g_c.cb_rec.socket == g_rec.socket,
		      "C09 a successful add is reported exactly once, as added, with the record");
	else
		CHECK(g_c.cb == 0, "C09 nothing is reported for a duplicate, a failure, or without a callback");
	if (r == PFX_DUPLICATE_RECORD)
		CANARY("duplicate reachable");
	if (r == PFX_SUCCESS && famroot == NULL && g_rec.prefix.ver == LRTR_IPV6)
		CANARY("first IPv6 record reachable");
	if (r == PFX_SUCCESS && g_c.insert == 1)
		CANARY("insert below a parent reachable");
	if (r == PFX_ERROR)
		CANARY("failure reachable");
}

int pfx_table_remove(struct pfx_table *pfx_table, const struct pfx_record *record)
__CPROVER_requires(pfx_table == &g_tab && record == &g_rec)
__CPROVER_ensures(__CPROVER_return_value == PFX_SUCCESS || __CPROVER_return_value == PFX_ERROR || __CPROVER_return_value == PFX_RECORD_NOT_FOUND)
__CPROVER_assigns(g_tab.ipv4, g_tab.ipv6, g_ndata.len, __CPROVER_object_whole(&g_lock), __CPROVER_object_whole(&g_c));

void h_pfx_remove(void)
{
	g_tape_n = 0;
	mk();
	struct trie_node *famroot = g_rec.prefix.ver == LRTR_IPV4 ? g_r4 : g_r6;
	int r = pfx_table_remove(&g_tab, &g_rec);

	CHECK(!g_lock.error && g_lock.held == 0 && g_lock.acquisitions == 1, "C16 remove: one write-locked section, released on every path");
	CHECK(!g_c.bad_args && !g_c.cb_locked, "C09 callbacks name this table and run after the lock is released; only the emptied node and its payload are released");
	const bool present = famroot != NULL && g_sc.lk_found && g_sc.fe_found;

	if (!present) {
		CHECK(r == PFX_RECORD_NOT_FOUND && g_c.del == 0 && g_c.rm == 0 && g_c.frees == 0 && g_lock.real4 == g_r4 && g_lock.real6 == g_r6,
		      "C02 removing an absent record reports not-found and changes nothing");
	} else if (!g_sc.de_ok) {
		CHECK(r == PFX_ERROR && g_c.rm == 0 && g_c.frees == 0 && g_lock.real4 == g_r4 && g_lock.real6 == g_r6, "C18 a failed element deletion: error, nothing else touched");
	} else {
		CHECK(r == PFX_SUCCESS && g_c.del == 1, "C02 removing a present record deletes its element");
		if (g_sc.de_newlen == 0) {
			CHECK(g_c.rm == 1 && g_c.frees == 2, "C02 a node left without records is taken out of the trie and released with its payload");
			if (g_sc.rm_ret == famroot)
				CHECK((g_rec.prefix.ver == LRTR_IPV4 ? (g_lock.real4 == NULL && g_lock.real6 == g_r6) : (g_lock.real6 == NULL && g_lock.real4 == g_r4)),
				      "C02 when the root itself is handed back the family becomes empty (only that family)");
			else
				CHECK(g_lock.real4 == g_r4 && g_lock.real6 == g_r6, "C02 otherwise the roots stay");
		} else {
			CHECK(g_c.rm == 0 && g_c.frees == 0 && g_lock.real4 == g_r4 && g_lock.real6 == g_r6, "C02 a node that still holds records stays");
		}
	}
	if (r == PFX_SUCCESS && g_tab.update_fp)
		CHECK(g_c.cb == 1 && !g_c.cb_added && g_c.cb_rec.asn == g_rec.asn && g_c.cb_rec.max_len == g_rec.max_len && g_c.cb_rec.socket == g_rec.socket,
		      "C09 a successful remove is reported exactly once, as removed, with the record");
	else
		CHECK(g_c.cb == 0, "C09 nothing is reported for not-found or failure");
	if (r == PFX_SUCCESS && g_sc.de_newlen == 0 && g_sc.rm_ret == famroot)
		CANARY("last record of a family reachable");
	if (r == PFX_SUCCESS && g_sc.de_newlen == 1)
		CANARY("node keeps other records reachable");
	if (r == PFX_RECORD_NOT_FOUND && famroot == NULL)
		CANARY("remove from an empty family reachable");
	if (r == PFX_ERROR)
		CANARY("failure reachable");
}
