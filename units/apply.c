/*
 * C03 / C14 (modular pieces of the payload phase, all complete = loop-free over symbolic inputs):
 *   h_pdu2rec_pfx   rtr_prefix_pdu_2_pfx_record: every field of the record equals the PDU's field
 *   h_pdu2rec_key   rtr_key_pdu_2_spki_record: AS, all 20 SKI bytes, all 91 SPKI bytes, source
 *   h_update_pfx    rtr_update_pfx_table: announce = add, withdraw = remove of exactly the record the PDU
 *                   describes; duplicate / unknown withdrawal / invalid flags / table error: nothing applied,
 *                   the right Error Report requested (its precondition = C14 at this call site), RTR_ERROR
 *   h_undo_pfx      rtr_undo_update_pfx_table: the inverse table operation on the same record
 *   h_update_key / h_undo_key   the router-key twins
 *   h_store_pfx     rtr_store_prefix_pdu: appends the PDU to the buffer (growing it by 100 entries), or on
 *                   allocation failure leaves buffer, index and size untouched and reports
 * Tables are the executable client reading of the C02 / C10 contracts (env/ghost_tables.h).
 */
#include "verif.h"

#include "env/env_libc_pre.h"
#include "rtrlib/rtr/packets.c" /* the real translation unit */

#define ENV_NO_TX_BYTES
#include "env/env_packets.h"
#include "contracts/packets.h"
#include "contracts/sync.h"
#include "env/ghost_tables.h"

#ifndef H_ENTRY
#define H_ENTRY h_update_pfx
#endif
VERIF_MAIN(H_ENTRY)

static struct rtr_socket g_sock;
static struct rtr_socket g_pre;
static struct rtr_socket g_other;
static struct tr_socket g_tr;
static struct pfx_table g_ptab;
static struct spki_table g_ktab;
struct blob {
	unsigned char b[128];
};
static struct blob g_pdu __attribute__((aligned(8)));

void *lrtr_realloc(void *ptr, size_t size)
{
	if (VND_BOOL()) {
		g_gt.injected_error = true;
		return NULL;
	}
	return realloc(ptr, size);
}

static void mk(void)
{
	g_sock.tr_socket = &g_tr;
	g_sock.pfx_table = &g_ptab;
	g_sock.spki_table = &g_ktab;
	g_sock.version = VND_U8() & 1;
	g_sock.state = (enum rtr_socket_state)VND_U8();
	ASSUME(g_sock.state <= RTR_CLOSED);
	g_sock.connection_state_fp = NULL;
	g_sock.session_id = VND_U16();
	g_sock.request_session_id = VND_BOOL();
	g_sock.serial_number = VND_U32();
	g_pre = g_sock;
	struct env_log z = {0};
	struct sync_ghost zg = {0};
	struct gtables zt = {0};

	g_env = z;
	g_gh = zg;
	g_gt = zt;
	g_gt.pmain = &g_ptab;
	g_gt.kmain = &g_ktab;
}

/* a prefix PDU as the receive path delivers it (host order, right size for its type) */
static enum pdu_type mk_prefix_pdu(void)
{
	const bool v6 = VND_BOOL();

	if (v6) {
		struct pdu_ipv6 *p = (struct pdu_ipv6 *)g_pdu.b;

		p->ver = (uint8_t)g_sock.version;
		p->type = IPV6_PREFIX;
		p->len = 32;
		return IPV6_PREFIX;
	}
	struct pdu_ipv4 *p = (struct pdu_ipv4 *)g_pdu.b;

	p->ver = (uint8_t)g_sock.version;
	p->type = IPV4_PREFIX;
	p->len = 20;
	return IPV4_PREFIX;
}

/* the record a prefix PDU describes, read off the PDU independently of the code under verification */
static bool rec_is_of_pdu(const struct pfx_record *r, const void *pdu, const struct rtr_socket *s)
{
	if (HP(pdu)->type == SPEC_PDU_IPV4) {
		const struct pdu_ipv4 *p = pdu;

		return r->prefix.ver == LRTR_IPV4 && r->prefix.u.addr4.addr == p->prefix && r->asn == p->asn && r->min_len == p->prefix_len &&
		       r->max_len == p->max_prefix_len && r->socket == s;
	}
	const struct pdu_ipv6 *p = pdu;

	return r->prefix.ver == LRTR_IPV6 && r->prefix.u.addr6.addr[0] == p->prefix[0] && r->prefix.u.addr6.addr[1] == p->prefix[1] &&
	       r->prefix.u.addr6.addr[2] == p->prefix[2] && r->prefix.u.addr6.addr[3] == p->prefix[3] && r->asn == p->asn &&
	       r->min_len == p->prefix_len && r->max_len == p->max_prefix_len && r->socket == s;
}

void h_pdu2rec_pfx(void)
{
	g_tape_n = 0;
	mk();
	enum pdu_type t = mk_prefix_pdu();
	struct pfx_record r;

	rtr_prefix_pdu_2_pfx_record(&g_sock, g_pdu.b, &r, t);
	CHECK(rec_is_of_pdu(&r, g_pdu.b, &g_sock), "C03 the record built from a prefix PDU carries exactly the PDU's prefix, lengths, AS and this socket as source");
	if (t == IPV6_PREFIX)
		CANARY("ipv6 reachable");
	if (t == IPV4_PREFIX)
		CANARY("ipv4 reachable");
}

void h_pdu2rec_key(void)
{
	g_tape_n = 0;
	mk();
	struct pdu_router_key *p = (struct pdu_router_key *)g_pdu.b;
	struct spki_record r;

	p->type = ROUTER_KEY;
	rtr_key_pdu_2_spki_record(&g_sock, p, &r, ROUTER_KEY);
	bool same = r.asn == p->asn && r.socket == &g_sock;

	for (unsigned int i = 0; i < SKI_SIZE; i++)
		same = same && r.ski[i] == p->ski[i];
	for (unsigned int i = 0; i < SPKI_SIZE; i++)
		same = same && r.spki[i] == p->spki[i];
	CHECK(same, "C03 the record built from a Router Key PDU carries exactly the PDU's AS, SKI and key and this socket as source");
	CANARY("reachable after call");
}

/* pre-state of the ghost prefix table: the PDU's record and two bystanders, each present or not */
static int g_jrec;
static bool g_m0[GT_NU];
static void mk_ptable(void)
{
	struct pfx_record r;
	enum pdu_type t = mk_prefix_pdu();

	if (t == IPV4_PREFIX) {
		const struct pdu_ipv4 *p = (const struct pdu_ipv4 *)g_pdu.b;
		struct lrtr_ip_addr a = {.ver = LRTR_IPV4, .u.addr4.addr = p->prefix};

		r.prefix = a;
		r.asn = p->asn;
		r.min_len = p->prefix_len;
		r.max_len = p->max_prefix_len;
	} else {
		const struct pdu_ipv6 *p = (const struct pdu_ipv6 *)g_pdu.b;
		struct lrtr_ip_addr a = {.ver = LRTR_IPV6, .u.addr6.addr = {p->prefix[0], p->prefix[1], p->prefix[2], p->prefix[3]}};

		r.prefix = a;
		r.asn = p->asn;
		r.min_len = p->prefix_len;
		r.max_len = p->max_prefix_len;
	}
	r.socket = &g_sock;
	g_jrec = gt_canon(&r);
	struct pfx_record o = r;

	o.socket = &g_other; /* the same prefix learned from another cache is a different record */
	gt_canon(&o);
	o.socket = &g_sock;
	o.asn = r.asn + 1;
	gt_canon(&o);
	for (unsigned int j = 0; j < GT_NU; j++) {
		g_gt.p[0][j] = j < g_gt.nu ? VND_BOOL() : false;
		g_m0[j] = g_gt.p[0][j];
	}
}
static bool ptable_same_except(int jx)
{
	bool same = true;

	for (unsigned int j = 0; j < GT_NU; j++)
		if ((int)j != jx)
			same = same && g_gt.p[0][j] == g_m0[j];
	return same;
}

void h_update_pfx(void)
{
	g_tape_n = 0;
	mk();
	mk_ptable();
	const uint8_t flags = ((const struct pdu_ipv4 *)g_pdu.b)->flags;
	const bool was = g_m0[g_jrec];
	int r = rtr_update_pfx_table(&g_sock, &g_ptab, g_pdu.b);

	CHECK(!g_gt.overflow && !g_gt.bad_table && g_gt.nu == 3, "C03 the table is asked about exactly the record the PDU describes (no other value reaches it)");
	CHECK(ptable_same_except(g_jrec), "C03 no other record is touched");
	CHECK(r == 0 || r == -1, "C03 applying a PDU succeeds or fails");
	if (r == 0) {
		CHECK((flags == 1 && !was && g_gt.p[0][g_jrec]) || (flags == 0 && was && !g_gt.p[0][g_jrec]), "C03 announcement adds the absent record, withdrawal removes the present one");
		CHECK(g_gh.err_reports == 0 && g_sock.state == g_pre.state, "C14 no report without a violation");
	} else {
		CHECK(g_gt.p[0][g_jrec] == was, "C03 a PDU that cannot be applied changes nothing");
		CHECK(g_gh.err_reports == 1, "C14 every refused prefix PDU is reported");
		if (flags > 1)
			CHECK(g_gh.last_err_code == SPEC_ERR_CORRUPT_DATA, "C14 invalid flags: Corrupt Data");
		else if (!g_gt.injected_error)
			CHECK(g_gh.last_err_code == (flags == 1 ? SPEC_ERR_DUPLICATE : SPEC_ERR_WITHDRAWAL_UNKNOWN) && (flags == 1) == was,
			      "C14 duplicate announcement / withdrawal of unknown record carry their own codes");
		else
			CHECK(g_gh.last_err_code == SPEC_ERR_INTERNAL, "C14 a table failure is an Internal Error");
	}
	if (r == 0 && flags == 0)
		CANARY("withdrawal reachable");
	if (r == -1 && flags == 1 && was)
		CANARY("duplicate reachable");
	if (r == -1 && flags == 7)
		CANARY("invalid flags reachable");
	if (r == -1 && g_gt.injected_error)
		CANARY("table failure reachable");
}

void h_undo_pfx(void)
{
	g_tape_n = 0;
	mk();
	mk_ptable();
	const uint8_t flags = ((const struct pdu_ipv4 *)g_pdu.b)->flags;
	const bool was = g_m0[g_jrec];
	int r = rtr_undo_update_pfx_table(&g_sock, &g_ptab, g_pdu.b);

	CHECK(!g_gt.overflow && !g_gt.bad_table && g_gt.nu == 3 && ptable_same_except(g_jrec), "C03 undo addresses exactly the PDU's record");
	if (flags == 1)
		CHECK(r == (was ? (g_gt.injected_error ? -1 : 0) : -3) && g_gt.p[0][g_jrec] == (r == 0 ? false : was), "C03 undoing an announcement removes the record");
	else if (flags == 0)
		CHECK(r == (!was ? (g_gt.injected_error ? -1 : 0) : -2) && g_gt.p[0][g_jrec] == (r == 0 ? true : was), "C03 undoing a withdrawal re-adds the record");
	else
		CHECK(r == -1 && g_gt.p[0][g_jrec] == was, "C03 a PDU with invalid flags was never applied: nothing to undo, reported as failure");
	if (r == -3)
		CANARY("undo of an announcement whose record is gone reachable");
	if (r == 0 && flags == 0)
		CANARY("re-add reachable");
}

/* ---- router keys */
static int g_jkey;
static bool g_k0[GT_NK];
static void mk_ktable(void)
{
	struct pdu_router_key *p = (struct pdu_router_key *)g_pdu.b;
	struct spki_record r;

	p->type = ROUTER_KEY;
	p->len = 123;
	r.asn = p->asn;
	for (unsigned int i = 0; i < SKI_SIZE; i++)
		r.ski[i] = p->ski[i];
	for (unsigned int i = 0; i < SPKI_SIZE; i++)
		r.spki[i] = p->spki[i];
	r.socket = &g_sock;
	g_jkey = gt_kcanon(&r);
	struct spki_record o = r;

	o.socket = &g_other;
	gt_kcanon(&o);
	for (unsigned int j = 0; j < GT_NK; j++) {
		g_gt.k[0][j] = j < g_gt.nk ? VND_BOOL() : false;
		g_k0[j] = g_gt.k[0][j];
	}
}
static bool ktable_same_except(int jx)
{
	bool same = true;

	for (unsigned int j = 0; j < GT_NK; j++)
		if ((int)j != jx)
			same = same && g_gt.k[0][j] == g_k0[j];
	return same;
}

void h_update_key(void)
{
	g_tape_n = 0;
	mk();
	mk_ktable();
	const uint8_t flags = ((const struct pdu_router_key *)g_pdu.b)->flags;
	const bool was = g_k0[g_jkey];
	int r = rtr_update_spki_table(&g_sock, &g_ktab, g_pdu.b);

	CHECK(!g_gt.overflow && !g_gt.bad_table && g_gt.nk == 2 && ktable_same_except(g_jkey), "C03 the key table is asked about exactly the key the PDU describes");
	CHECK(r == 0 || r == -1, "C03 applying a PDU succeeds or fails");
	if (r == 0) {
		CHECK((flags == 1 && !was && g_gt.k[0][g_jkey]) || (flags == 0 && was && !g_gt.k[0][g_jkey]), "C03 announcement adds the absent key, withdrawal removes the present one");
		CHECK(g_gh.err_reports == 0, "C14 no report without a violation");
	} else {
		CHECK(g_gt.k[0][g_jkey] == was && g_gh.err_reports == 1, "C03/C14 a refused Router Key PDU changes nothing and is reported");
		if (flags > 1)
			CHECK(g_gh.last_err_code == SPEC_ERR_CORRUPT_DATA, "C14 invalid flags: Corrupt Data");
		else if (!g_gt.injected_error)
			CHECK(g_gh.last_err_code == (flags == 1 ? SPEC_ERR_DUPLICATE : SPEC_ERR_WITHDRAWAL_UNKNOWN), "C14 duplicate / unknown withdrawal carry their own codes");
	}
	if (r == 0 && flags == 1)
		CANARY("key added reachable");
	if (r == -1 && flags == 0 && !was)
		CANARY("unknown withdrawal reachable");
}

void h_undo_key(void)
{
	g_tape_n = 0;
	mk();
	mk_ktable();
	const uint8_t flags = ((const struct pdu_router_key *)g_pdu.b)->flags;
	const bool was = g_k0[g_jkey];
	int r = rtr_undo_update_spki_table(&g_sock, &g_ktab, g_pdu.b);

	CHECK(!g_gt.overflow && !g_gt.bad_table && g_gt.nk == 2 && ktable_same_except(g_jkey), "C03 undo addresses exactly the PDU's key");
	if (flags == 1)
		CHECK(g_gt.k[0][g_jkey] == (r == 0 ? false : was) && (r == 0) == (was && !g_gt.injected_error), "C03 undoing an announcement removes the key");
	else if (flags == 0)
		CHECK(g_gt.k[0][g_jkey] == (r == 0 ? true : was) && (r == 0) == (!was && !g_gt.injected_error), "C03 undoing a withdrawal re-adds the key");
	else
		CHECK(r == -1 && g_gt.k[0][g_jkey] == was, "C03 invalid flags: nothing to undo");
	if (r == 0)
		CANARY("undo reachable");
}

/* ---- buffering */
void h_store_pfx(void)
{
	g_tape_n = 0;
	mk();
	enum pdu_type t = mk_prefix_pdu();
	const unsigned int esz = t == IPV4_PREFIX ? sizeof(struct pdu_ipv4) : sizeof(struct pdu_ipv6);
	/* a buffer as the function itself builds it: size a multiple of 100 entries, index <= size */
	unsigned int size = VND_BOOL() ? 100 : 0;
	unsigned int ind = VND_U8();

	ASSUME(ind <= size);
	void *ary = size ? malloc(size * esz) : NULL;

	ASSUME(size == 0 || ary != NULL);
	void *ary0 = ary;
	const unsigned int ind0 = ind, size0 = size;
	int r = rtr_store_prefix_pdu(&g_sock, g_pdu.b, esz, &ary, &ind, &size);

	if (r == 0) {
		CHECK(ind == ind0 + 1 && size >= ind && (size == size0 || size == size0 + 100), "C03 buffering appends one PDU and grows the buffer by 100 entries when full");
		bool same = true;

		for (unsigned int i = 0; i < 32; i++)
			if (i < esz)
				same = same && ((unsigned char *)ary)[ind0 * esz + i] == g_pdu.b[i];
		CHECK(same, "C03 the buffered copy equals the received PDU");
	} else {
		CHECK(r == -1 && ary == ary0 && ind == ind0, "C18 a failed buffer extension leaves the buffer and its index untouched");
		CHECK(g_gh.err_reports == 1 && g_gh.last_err_code == SPEC_ERR_INTERNAL, "C14 allocation failure is reported as Internal Error");
	}
	if (r == 0 && size == size0 + 100 && size0 == 100)
		CANARY("growth of a full buffer reachable");
	if (r == -1)
		CANARY("allocation failure reachable");
}
