/*
 * C02 / C09 / C16 / C18 -- the REAL prefix table (trie-pfx.c + trie.c: lookup, insert with payload swap,
 * remove with pull-up, per-source purge, enumeration, element arrays) against the mathematical set, over
 * operation histories:  HIST_N symbolic adds from the empty table, then one symbolic operation
 * (add / remove / remove-by-source / nothing), then enumeration of both families.
 * Checked after every step: return code = set semantics (success / duplicate / not found, or an injected
 * allocation failure with NO effect), the update callbacks are exactly the set delta, the lock protocol
 * holds; at the end the enumeration yields exactly the set, each record once, all fields intact.
 * BOUNDED stand-in: histories of HIST_N + 1 operations (quick 2 + 1, thorough 3 + 1) over symbolic
 * records of both families (any prefix / length <= width / max length / AS / one of two sources);
 * recursion and loops unwound with unwinding assertions.
 */
#include "verif.h"

#include "rtrlib/pfx/trie/trie.c"
#include "rtrlib/pfx/trie/trie-pfx.c" /* the real translation units */

#include "spec/spec.h"
#include "contracts/bits.h"
#include "env/env_lock.h"
#include "units/mk_addr.h"

VERIF_MAIN(h_pfx_hist)

#ifndef HIST_N
#define HIST_N 2
#endif
#define NREC (HIST_N + 1)

static struct pfx_table g_tab;
static struct rtr_socket *g_s1 = (struct rtr_socket *)0x1000, *g_s2 = (struct rtr_socket *)0x2000;

/* ---- allocator: may fail at every call (C18) */
static bool g_alloc_failed;
void *lrtr_malloc(size_t size)
{
	if (VND_BOOL()) {
		g_alloc_failed = true;
		return NULL;
	}
	void *p = malloc(size);

	ASSUME(p != NULL);
	return p;
}
/* realloc with a fixed capacity: CBMC's realloc with a symbolic size is intractable, so every block of the
 * element arrays has room for RCAP bytes (accesses beyond the requested size but inside RCAP are therefore
 * not flagged in this unit; the element-array functions are verified with exact sizes in units/elems.c) */
#define RCAP 64
struct rblock {
	unsigned char b[RCAP];
};
void *lrtr_realloc(void *ptr, size_t size)
{
	__CPROVER_assert(size <= RCAP, "unit: element arrays stay within the modelled capacity");
	if (size == 0) {
		free(ptr);
		return NULL;
	}
	if (VND_BOOL()) {
		g_alloc_failed = true;
		return NULL;
	}
	struct rblock *p = malloc(sizeof(struct rblock));

	ASSUME(p != NULL);
	if (ptr) {
		*p = *(struct rblock *)ptr;
		free(ptr);
	}
	return p;
}
void lrtr_free(void *ptr)
{
	free(ptr);
}
int pthread_rwlock_init(pthread_rwlock_t *l, const pthread_rwlockattr_t *a)
{
	return 0;
}

/* ---- the mathematical set and the callback log */
static struct pfx_record g_rec[NREC];
static bool g_in[NREC]; /* record i (by value: first index with that value) is in the set */
struct cblog {
	unsigned int n;
	struct pfx_record last;
	bool last_added;
	bool foreign; /* a callback for a table other than ours */
};
static struct cblog g_cb;
static void update_cb(struct pfx_table *t, const struct pfx_record r, const bool added)
{
	if (t != &g_tab)
		g_cb.foreign = true;
	g_cb.n++;
	g_cb.last = r;
	g_cb.last_added = added;
}
static bool rec_eq(const struct pfx_record *a, const struct pfx_record *b)
{
	return a->asn == b->asn && a->min_len == b->min_len && a->max_len == b->max_len && a->socket == b->socket && spec_ip_eq(a->prefix, b->prefix);
}
static unsigned int canon(unsigned int i)
{
	for (unsigned int j = 0; j < NREC; j++)
		if (j < i && rec_eq(&g_rec[j], &g_rec[i]))
			return j;
	return i;
}
static struct pfx_record mk_rec(void)
{
	struct pfx_record r;

	r.prefix = mk_addr_any();
	r.min_len = VND_U8();
	r.max_len = VND_U8();
	r.asn = VND_U32();
	r.socket = VND_BOOL() ? g_s1 : g_s2;
	/* records as a well-formed table holds them: length within the address width, host bits zero */
	ASSUME(r.min_len <= (r.prefix.ver == LRTR_IPV6 ? 128 : 32));
	ASSUME(spec_ip_eq(r.prefix, spec_ip_getbits(r.prefix, 0, r.min_len)));
	return r;
}

/* ---- enumeration collector */
struct collect {
	unsigned int n;
	unsigned int hits[NREC];
	bool stranger; /* a record that is not in the universe */
};
static struct collect g_col;
static void collect_cb(const struct pfx_record *r, void *data)
{
	bool known = false;

	g_col.n++;
	for (unsigned int j = 0; j < NREC; j++)
		if (!known && rec_eq(&g_rec[j], r)) {
			g_col.hits[j]++;
			known = true;
		}
	if (!known)
		g_col.stranger = true;
}

static void do_add(unsigned int i)
{
	const unsigned int c = canon(i);
	const bool was = g_in[c];
	const unsigned int cb0 = g_cb.n;

	g_alloc_failed = false;
	int r = pfx_table_add(&g_tab, &g_rec[i]);

	if (was) {
		CHECK(r == PFX_DUPLICATE_RECORD && g_cb.n == cb0, "C02/C09 adding a present record reports a duplicate, changes nothing, notifies nobody");
	} else if (r == PFX_SUCCESS) {
		g_in[c] = true;
		CHECK(g_cb.n == cb0 + 1 && g_cb.last_added && rec_eq(&g_cb.last, &g_rec[i]), "C09 a successful add is reported once, as added, with the record's fields");
	} else {
		CHECK(r == PFX_ERROR && g_alloc_failed && g_cb.n == cb0, "C18 an add fails only on allocation failure, then without effect or notification");
	}
	CHECK(!g_lock.error && g_lock.held == 0, "C16 add: lock protocol");
}

void h_pfx_hist(void)
{
	g_tape_n = 0;
	pfx_table_init(&g_tab, update_cb);
	lock_setup(&g_tab, NULL, NULL);
	for (unsigned int i = 0; i < NREC; i++) {
		g_rec[i] = mk_rec();
		g_in[i] = false;
	}
	g_cb.n = 0;
	g_cb.foreign = false;
	for (unsigned int i = 0; i < HIST_N; i++)
		do_add(i);
	/* ---- the operation under test */
	const unsigned int op = VND_U8() & 3;
	const unsigned int cb0 = g_cb.n;

	g_alloc_failed = false;
	if (op == 0) {
		do_add(HIST_N);
	} else if (op == 1) {
		const unsigned int c = canon(HIST_N);
		const bool was = g_in[c];
		int r = pfx_table_remove(&g_tab, &g_rec[HIST_N]);

		if (!was) {
			CHECK(r == PFX_RECORD_NOT_FOUND && g_cb.n == cb0, "C02/C09 removing an absent record reports not-found, changes nothing, notifies nobody");
		} else if (r == PFX_SUCCESS) {
			g_in[c] = false;
			CHECK(g_cb.n == cb0 + 1 && !g_cb.last_added && rec_eq(&g_cb.last, &g_rec[HIST_N]), "C09 a successful remove is reported once, as removed");
		} else {
			CHECK(r == PFX_ERROR && g_alloc_failed && g_cb.n == cb0, "C18 a remove fails only on allocation failure, then without effect");
		}
		CHECK(!g_lock.error && g_lock.held == 0, "C16 remove: lock protocol");
	} else if (op == 2) {
		unsigned int expect = 0;
		int r = pfx_table_src_remove(&g_tab, g_s1);

		if (r == PFX_SUCCESS) {
			for (unsigned int j = 0; j < NREC; j++)
				if (g_in[j] && g_rec[j].socket == g_s1) {
					g_in[j] = false;
					expect++;
				}
			CHECK(g_cb.n == cb0 + expect, "C09 removal by source reports exactly one removal per record of that source");
		} else {
			CHECK(r == PFX_ERROR && g_alloc_failed, "C18 removal by source fails only on allocation failure");
			/* partial purge: records of that source may be gone, nothing else */
			for (unsigned int j = 0; j < NREC; j++)
				if (g_rec[j].socket == g_s1)
					g_in[j] = false; /* unknown: excluded from the final comparison below */
		}
		CHECK(!g_lock.error && g_lock.held == 0, "C16 removal by source: lock protocol");
		if (r != PFX_SUCCESS)
			return;
	}
	CHECK(!g_cb.foreign, "C09 callbacks name this table");
	/* ---- enumeration = the set */
	struct collect z = {0};

	g_col = z;
	pfx_table_for_each_ipv4_record(&g_tab, collect_cb, NULL);
	pfx_table_for_each_ipv6_record(&g_tab, collect_cb, NULL);
	CHECK(!g_col.stranger, "C02 enumeration yields only records that were added, all fields intact");
	unsigned int total = 0;

	for (unsigned int j = 0; j < NREC; j++) {
		CHECK(g_col.hits[j] == ((g_in[j] && canon(j) == j) ? 1u : 0u), "C02 enumeration yields every stored record exactly once and nothing else");
		total += g_col.hits[j];
	}
	CHECK(total == g_col.n, "C02 enumeration count");
	CHECK(!g_lock.error && g_lock.held == 0, "C16 enumeration: lock protocol");

	if (op == 1 && total == HIST_N - 1 && HIST_N >= 3)
		CANARY("remove from a table of three reachable");
	if (op == 2 && total == 1)
		CANARY("purge leaving one record reachable");
	if (op == 0 && total == NREC)
		CANARY("four distinct records reachable");
	if (total == 2 && g_rec[0].prefix.ver != g_rec[1].prefix.ver)
		CANARY("both families reachable");
	if (g_in[0] && g_in[1] && spec_ip_eq(g_rec[0].prefix, g_rec[1].prefix) && g_rec[0].min_len == g_rec[1].min_len && canon(1) == 1)
		CANARY("two records in one node reachable");
}
