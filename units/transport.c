/*
 * C04 / C14 -- tr_recv_all and tr_send_all deliver exactly `len` bytes, contiguously and in order, or
 * report the transport's error, for EVERY way the transport splits the transfer into chunks and for
 * every placement of an error.  Unbounded: the loops carry inductive loop contracts (plan.py).
 */
#include "verif.h"

#include "rtrlib/transport/transport.c" /* the real translation unit */

#include "contracts/transport.h"

#ifndef H_ENTRY
#define H_ENTRY h_tr_recv_all
#endif
VERIF_MAIN(H_ENTRY)

const char *g_xfer_base;
size_t g_xfer_len;
size_t g_xfer_count;
bool g_xfer_ok;
static char g_buf[TR_XFER_MAX];
static struct tr_socket g_tr;
static int g_sockobj;

/* environment: clock (any value, may fail) */
int lrtr_get_monotonic_time(time_t *seconds)
{
	*seconds = (time_t)VND_U32();
	return VND_BOOL() ? 0 : -1;
}

/* environment: one chunk of a transfer */
static int env_xfer(const void *socket, const void *buf, const size_t len, const time_t timeout)
{
	if (!(socket == &g_sockobj && (const char *)buf == g_xfer_base + g_xfer_count && len == g_xfer_len - g_xfer_count &&
	      len > 0 && g_xfer_count < g_xfer_len))
		g_xfer_ok = false;
	int r = VND_INT();

	ASSUME(TR_IS_ERR(r) || (r >= 1 && (size_t)r <= len));
	if (r > 0)
		g_xfer_count += r;
	return r;
}
static int env_recv(const void *socket, void *buf, const size_t len, const time_t timeout)
{
	return env_xfer(socket, buf, len, timeout);
}
static int env_send(const void *socket, const void *buf, const size_t len, const time_t timeout)
{
	return env_xfer(socket, buf, len, timeout);
}

static size_t mk_transfer(void)
{
	size_t len = VND_U32();

	ASSUME(len <= TR_XFER_MAX);
	g_tr.socket = &g_sockobj;
	g_tr.recv_fp = env_recv;
	g_tr.send_fp = env_send;
	g_xfer_base = g_buf;
	g_xfer_len = len;
	g_xfer_count = 0;
	g_xfer_ok = true;
	return len;
}

void h_tr_recv_all(void)
{
	g_tape_n = 0;
	size_t len = mk_transfer();
	int r = tr_recv_all(&g_tr, g_buf, len, (time_t)VND_U32());

	CHECK(TR_IS_ERR(r) || (r == (int)len && g_xfer_count == len), "C04 tr_recv_all: all len bytes or the transport's error");
	CHECK(g_xfer_ok, "C04 tr_recv_all: every read asks for exactly the missing rest at the right place");
	if (r == (int)len && len == TR_XFER_MAX)
		CANARY("full-size transfer reachable");
	if (r == -4)
		CANARY("closed reachable");
	if (len == 0)
		CANARY("empty transfer reachable");
}

void h_tr_send_all(void)
{
	g_tape_n = 0;
	size_t len = mk_transfer();
	int r = tr_send_all(&g_tr, g_buf, len, (time_t)VND_U32());

	CHECK(TR_IS_ERR(r) || (r == (int)len && g_xfer_count == len), "C14 tr_send_all: all len bytes or the transport's error");
	CHECK(g_xfer_ok, "C14 tr_send_all: every write hands over exactly the unsent rest");
	if (r == (int)len && len == TR_XFER_MAX)
		CANARY("full-size transfer reachable");
	if (r == -2)
		CANARY("would-block reachable");
}
