/*
 * C02 / C09 / C16 -- pfx_table_src_remove / pfx_table_remove_id (the REAL recursive purge with its "check the
 * node again after a pull-up" loop, the real trie_remove and element deletion) on EVERY trie shape of SR_DEPTH
 * levels (each slot present or absent, 1..2 records per node, two sources, any prefixes / lengths satisfying the
 * trie invariant):
 *   - afterwards no record of the purged source is left, every other record is still there exactly once, with
 *     its prefix and length and its AS / max length intact, in its original order within the node
 *   - exactly one 'removed' callback per purged record, carrying that record; none for the others
 *   - "children are not shorter than their parent" and the parent links still hold; an emptied table has a
 *     NULL root; the lock is taken and released once per family
 * BOUNDED stand-in: SR_DEPTH = 2 (quick) / 3 (thorough).
 */
#include "verif.h"

#include "rtrlib/pfx/trie/trie.c"
#include "rtrlib/pfx/trie/trie-pfx.c" /* the real translation units */

#include "spec/spec.h"
#include "contracts/bits.h"
#include "units/mk_addr.h"

VERIF_MAIN(h_src_remove)

#ifndef SR_DEPTH
#define SR_DEPTH 2
#endif
#define SR_N ((1u << SR_DEPTH) - 1)
static struct pfx_table g_tab;
static struct trie_node g_t[SR_N];
static struct node_data g_d[SR_N];
static struct data_elem g_e[SR_N][2];
static bool g_present[SR_N];
/* before the call */
static struct data_elem g_e0[SR_N][2];
static unsigned int g_len0[SR_N];
static struct lrtr_ip_addr g_p0[SR_N];
static uint8_t g_l0[SR_N];
static const struct rtr_socket *g_s1 = (const struct rtr_socket *)0x1000, *g_s2 = (const struct rtr_socket *)0x2000;

struct srlog {
	unsigned int cb, cb_bad, frees;
	int lock;
	unsigned int acquisitions;
	bool lock_error, cb_unlocked_ok;
};
static struct srlog g_l;

static void update_cb(struct pfx_table *t, const struct pfx_record r, const bool added)
{
	g_l.cb++;
	if (added || r.socket != g_s1 || t != &g_tab)
		g_l.cb_bad++;
}
void *lrtr_realloc(void *ptr, size_t size)
{
	return ptr; /* shrink in place (allocation failure during a purge: see DESIGN.md, C07 assumption) */
}
void lrtr_free(void *ptr)
{
	g_l.frees++;
}
void *lrtr_malloc(size_t size)
{
	return NULL;
}
int pthread_rwlock_wrlock(pthread_rwlock_t *l)
{
	if (g_l.lock || l != &g_tab.lock)
		g_l.lock_error = true;
	g_l.lock = 2;
	g_l.acquisitions++;
	return 0;
}
int pthread_rwlock_rdlock(pthread_rwlock_t *l)
{
	g_l.lock_error = true;
	return 0;
}
int pthread_rwlock_unlock(pthread_rwlock_t *l)
{
	if (!g_l.lock || l != &g_tab.lock)
		g_l.lock_error = true;
	g_l.lock = 0;
	return 0;
}
int pthread_rwlock_init(pthread_rwlock_t *l, const pthread_rwlockattr_t *a)
{
	return 0;
}

void h_src_remove(void)
{
	g_tape_n = 0;
	unsigned int purged = 0;

	for (unsigned int i = 0; i < SR_N; i++) {
		g_present[i] = (i == 0) ? true : (g_present[(i - 1) / 2] && VND_BOOL());
		g_t[i].prefix = mk_addr4();
		g_t[i].len = VND_U8() % 33;
		g_t[i].data = &g_d[i];
		g_t[i].parent = i ? &g_t[(i - 1) / 2] : NULL;
		g_t[i].lchild = NULL;
		g_t[i].rchild = NULL;
		g_d[i].len = 1 + (VND_U8() & 1);
		g_d[i].ary = g_e[i];
		for (unsigned int j = 0; j < 2; j++) {
			g_e[i][j].asn = VND_U32();
			g_e[i][j].max_len = VND_U8();
			g_e[i][j].socket = VND_BOOL() ? g_s1 : g_s2;
			g_e0[i][j] = g_e[i][j];
			if (g_present[i] && j < g_d[i].len && g_e[i][j].socket == g_s1)
				purged++;
		}
		g_len0[i] = g_d[i].len;
		g_p0[i] = g_t[i].prefix;
		g_l0[i] = g_t[i].len;
		if (i && g_present[i])
			ASSUME(g_t[i].len >= g_t[(i - 1) / 2].len);
	}
	for (unsigned int i = 0; i < SR_N; i++) {
		if (2 * i + 1 < SR_N && g_present[2 * i + 1])
			g_t[i].lchild = &g_t[2 * i + 1];
		if (2 * i + 2 < SR_N && g_present[2 * i + 2])
			g_t[i].rchild = &g_t[2 * i + 2];
	}
	g_tab.ipv4 = &g_t[0];
	g_tab.ipv6 = NULL;
	g_tab.update_fp = update_cb;
	struct srlog z = {0};

	g_l = z;
	int r = pfx_table_src_remove(&g_tab, g_s1);

	CHECK(r == PFX_SUCCESS, "C02 removal by source succeeds");
	CHECK(!g_l.lock_error && g_l.lock == 0 && g_l.acquisitions == 2, "C16 removal by source: one write-locked section per family, released");
	CHECK(g_l.cb == purged && g_l.cb_bad == 0, "C09 removal by source reports exactly one removal per record of that source, and nothing else");
	/* ---- survey what hangs below the root now */
	bool reach[SR_N];
	unsigned int seen[SR_N]; /* how often payload i is found */
	bool len_ok = true, parent_ok = true, stray = false, content_ok = true;

	for (unsigned int i = 0; i < SR_N; i++) {
		reach[i] = false;
		seen[i] = 0;
	}
	if (g_tab.ipv4) {
		if (__CPROVER_same_object(g_tab.ipv4, g_t))
			reach[g_tab.ipv4 - g_t] = true;
		else
			stray = true;
	}
	for (unsigned int round = 0; round < SR_N; round++)
		for (unsigned int i = 0; i < SR_N; i++)
			if (reach[i]) {
				struct trie_node *c[2] = {g_t[i].lchild, g_t[i].rchild};

				for (unsigned int k = 0; k < 2; k++)
					if (c[k]) {
						if (!__CPROVER_same_object(c[k], g_t)) {
							stray = true;
						} else {
							reach[c[k] - g_t] = true;
							if (c[k]->len < g_t[i].len)
								len_ok = false;
							if (c[k]->parent != &g_t[i])
								parent_ok = false;
						}
					}
			}
	for (unsigned int i = 0; i < SR_N; i++)
		if (reach[i]) {
			if (!__CPROVER_same_object(g_t[i].data, g_d)) {
				stray = true;
			} else {
				const unsigned int p = (struct node_data *)g_t[i].data - g_d;

				seen[p]++;
				/* the payload still sits under its own prefix and length */
				if (!(g_t[i].len == g_l0[p] && g_t[i].prefix.u.addr4.addr == g_p0[p].u.addr4.addr))
					content_ok = false;
			}
		}
	CHECK(!stray, "C02 links stay inside the table");
	CHECK(len_ok && parent_ok, "C02 the trie invariants survive the purge");
	CHECK(content_ok, "C02 every surviving payload keeps its prefix and length");
	for (unsigned int p = 0; p < SR_N; p++) {
		/* what payload p must hold now: its original records of the other source, in order */
		struct data_elem want[2];
		unsigned int nw = 0;

		for (unsigned int j = 0; j < 2; j++)
			if (g_present[p] && j < g_len0[p] && g_e0[p][j].socket != g_s1)
				want[nw++] = g_e0[p][j];
		CHECK(seen[p] == (nw ? 1u : 0u), "C02 a node keeps exactly the prefixes that still have records; emptied nodes leave the trie");
		if (nw) {
			CHECK(g_d[p].len == nw, "C02 removal by source deletes exactly that source's records (count)");
			for (unsigned int j = 0; j < 2; j++)
				if (j < nw)
					CHECK(g_d[p].ary[j].asn == want[j].asn && g_d[p].ary[j].max_len == want[j].max_len && g_d[p].ary[j].socket == want[j].socket,
					      "C02 the other source's records are intact and in order");
		}
	}
	if (g_tab.ipv4 == NULL)
		CANARY("table emptied reachable");
	if (purged == 0)
		CANARY("nothing to purge reachable");
	if (g_present[1] && g_present[2] && seen[0] == 0 && seen[1] == 1 && seen[2] == 1)
		CANARY("root purged with both children surviving reachable");
	if (g_len0[0] == 2 && g_e0[0][0].socket == g_s1 && g_e0[0][1].socket == g_s2)
		CANARY("mixed node reachable");
}
