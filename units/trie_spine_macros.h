/* macro-only part of the spine model (also used to expand loop-contract clauses) */
#ifndef UNITS_TRIE_SPINE_MACROS_H
#define UNITS_TRIE_SPINE_MACROS_H
#ifdef VERIF_LC_EXPAND
#define LRTR_IPV4 0
#define LRTR_IPV6 1
#endif
#ifdef FAM6
#define SP_W 128
#define SP_VER LRTR_IPV6
#define SP_MK_ADDR mk_addr6
#define SP_BIT(a, k) SPEC_BIT128((a).u.addr6.addr, k)
/* n leading bits equal */
#define SP_TOP_EQ(a, b, n)                                                                             \
	(SPEC_TOP128_W((a).u.addr6.addr, n, 0) == SPEC_TOP128_W((b).u.addr6.addr, n, 0) &&             \
	 SPEC_TOP128_W((a).u.addr6.addr, n, 1) == SPEC_TOP128_W((b).u.addr6.addr, n, 1) &&             \
	 SPEC_TOP128_W((a).u.addr6.addr, n, 2) == SPEC_TOP128_W((b).u.addr6.addr, n, 2) &&             \
	 SPEC_TOP128_W((a).u.addr6.addr, n, 3) == SPEC_TOP128_W((b).u.addr6.addr, n, 3))
#else
#define SP_W 32
#define SP_VER LRTR_IPV4
#define SP_MK_ADDR mk_addr4
#define SP_BIT(a, k) SPEC_BIT32((a).u.addr4.addr, k)
#define SP_TOP_EQ(a, b, n) (SPEC_TOP32((a).u.addr4.addr, n) == SPEC_TOP32((b).u.addr4.addr, n))
#endif
#ifdef FAM6
#define SP_ADDR_EQ(a, b) ((a).u.addr6.addr[0] == (b).u.addr6.addr[0] && (a).u.addr6.addr[1] == (b).u.addr6.addr[1] && (a).u.addr6.addr[2] == (b).u.addr6.addr[2] && (a).u.addr6.addr[3] == (b).u.addr6.addr[3])
#else
#define SP_ADDR_EQ(a, b) ((a).u.addr4.addr == (b).u.addr4.addr)
#endif
/* RFC 6811: node k covers the query */
#define SP_COVERS(k) (g_nodes[k].len <= g_ql && SP_TOP_EQ(g_nodes[k].prefix, g_q, g_nodes[k].len))

#endif
