/*
 * C02 / C01 -- the per-node element arrays of trie-pfx.c, for arrays of ANY length (unbounded: the index
 * loops carry inductive loop contracts, "for all elements" is stated for an arbitrary ghost index g_i):
 *   h_find_elem     pfx_table_find_elem: returns the FIRST element equal in (AS, max length, source) and its
 *                   index, NULL iff no element is equal (records differing in any field are distinct)
 *   h_elem_nomatch  pfx_table_elem_matches answers false only if no element matches (AS equal and non-zero,
 *                   max length >= route length)
 *   h_elem_match    ... and true only if some element matches: BOUNDED stand-in (arrays of at most 4 elements,
 *                   the witness is not observable from outside, so the loop is unwound)
 *   h_del_elem      pfx_table_del_elem: the elements behind the deleted one move down by one, the others stay,
 *                   length - 1; a failed shrink restores the deleted element at the end and the length
 *   h_append_elem   pfx_table_append_elem: the record's fields land behind the old elements, which stay
 * The element array is a heap object of exactly len elements (any access beyond it is an obligation failure).
 * lrtr_realloc is modelled as in-place resize or failure (ASSUMPTION: realloc preserves the common prefix).
 */
#include "verif.h"

#include "rtrlib/pfx/trie/trie-pfx.c" /* the real translation unit */

#ifndef H_ENTRY
#define H_ENTRY h_find_elem
#endif
VERIF_MAIN(H_ENTRY)

#define NMAX 100000u
static struct node_data g_nd;
static unsigned int g_i; /* ghost: an arbitrary element index */
static struct pfx_record g_r;
static struct data_elem g_og, g_og1; /* ghost: elements g_i and g_i + 1 before the call */
static bool g_realloc_fails;
static void *g_realloc_ptr;
static size_t g_realloc_size;

#ifdef VERIF_NATIVE
/* native replay: the element-array functions never call it; it only satisfies the linker */
void *lrtr_malloc(size_t n)
{
	abort();
}
#endif
void *lrtr_realloc(void *ptr, size_t size)
{
	g_realloc_ptr = ptr;
	g_realloc_size = size;
	if (g_realloc_fails)
		return NULL;
	return ptr; /* resized in place: the harness allocates room for one more element */
}
void lrtr_free(void *ptr)
{
}

#define EL_EQ(e, r) ((e).asn == (r).asn && (e).max_len == (r).max_len && (e).socket == (r).socket)
#define EL_SAME(a, b) ((a).asn == (b).asn && (a).max_len == (b).max_len && (a).socket == (b).socket)
#define EL_MATCH(e, asn_, len_) ((e).asn != 0 && (e).asn == (asn_) && (len_) <= (e).max_len)

static void mk_array(unsigned int extra)
{
	g_nd.len = VND_U32();
	ASSUME(g_nd.len <= NMAX);
	g_nd.ary = malloc(sizeof(struct data_elem) * ((size_t)g_nd.len + extra));
	ASSUME(g_nd.ary != NULL);
	g_i = VND_U32();
	g_r.asn = VND_U32();
	g_r.max_len = VND_U8();
	g_r.min_len = VND_U8();
	g_r.socket = (const struct rtr_socket *)(uintptr_t)(VND_U8() & 3);
	g_realloc_fails = VND_BOOL();
}

struct data_elem *pfx_table_find_elem(const struct node_data *data, const struct pfx_record *record, unsigned int *index)
__CPROVER_requires(data == &g_nd && record == &g_r && __CPROVER_w_ok(index, sizeof(*index)))
__CPROVER_ensures(__CPROVER_return_value == NULL ? (g_i < g_nd.len ? !EL_EQ(g_nd.ary[g_i], g_r) : 1)
						 : (*index < g_nd.len && __CPROVER_return_value == &g_nd.ary[*index] && EL_EQ(g_nd.ary[*index], g_r) &&
						    (g_i < *index ? !EL_EQ(g_nd.ary[g_i], g_r) : 1)))
__CPROVER_assigns(*index);

void h_find_elem(void)
{
	g_tape_n = 0;
	mk_array(0);
	unsigned int idx = 0xffffffffu;
	struct data_elem *e = pfx_table_find_elem(&g_nd, &g_r, &idx);

	if (e == NULL) {
		if (g_i < g_nd.len)
			CHECK(!EL_EQ(g_nd.ary[g_i], g_r), "C02 find: NULL only if no element has the record's AS, max length and source");
	} else {
		CHECK(idx < g_nd.len && e == &g_nd.ary[idx] && EL_EQ(*e, g_r), "C02 find: the element returned equals the record in AS, max length and source, index reported");
		if (g_i < idx)
			CHECK(!EL_EQ(g_nd.ary[g_i], g_r), "C02 find: it is the first such element");
	}
	if (e && idx > 5)
		CANARY("hit deep in the array reachable");
	if (!e && g_nd.len > 5)
		CANARY("miss in a long array reachable");
	if (g_nd.len == 0)
		CANARY("empty array reachable");
}

static bool pfx_table_elem_matches(struct node_data *data, const uint32_t asn, const uint8_t prefix_len)
__CPROVER_requires(data == &g_nd)
__CPROVER_ensures(__CPROVER_return_value ? 1 : (g_i < g_nd.len ? !EL_MATCH(g_nd.ary[g_i], asn, prefix_len) : 1))
__CPROVER_assigns();

void h_elem_nomatch(void)
{
	g_tape_n = 0;
	mk_array(0);
	bool m = pfx_table_elem_matches(&g_nd, g_r.asn, g_r.min_len);

	if (!m && g_i < g_nd.len)
		CHECK(!EL_MATCH(g_nd.ary[g_i], g_r.asn, g_r.min_len), "C01 'no match' only if no element has the route's non-zero AS and a max length >= the route length");
	if (!m && g_nd.len > 3)
		CANARY("no match in a long array reachable");
	if (m)
		CANARY("match reachable");
}

void h_elem_match(void)
{
	g_tape_n = 0;
	static struct data_elem four[4];

	for (unsigned int k = 0; k < 4; k++) {
		four[k].asn = VND_U32();
		four[k].max_len = VND_U8();
		four[k].socket = NULL;
	}
	g_nd.len = VND_U8();
	ASSUME(g_nd.len <= 4);
	g_nd.ary = four;
	g_r.asn = VND_U32();
	g_r.min_len = VND_U8();
	bool any = false;

	for (unsigned int k = 0; k < 4; k++)
		if (k < g_nd.len && EL_MATCH(g_nd.ary[k], g_r.asn, g_r.min_len))
			any = true;
	bool m = pfx_table_elem_matches(&g_nd, g_r.asn, g_r.min_len);

	CHECK(m == any, "C01 an element array matches exactly when some element has the route's non-zero AS and a max length >= the route length");
	if (m && g_nd.len == 4)
		CANARY("match in a full array reachable");
	if (!m && g_r.asn == 0 && g_nd.len > 0)
		CANARY("AS 0 never matches reachable");
}

static int pfx_table_del_elem(struct node_data *data, const unsigned int index)
__CPROVER_requires(data == &g_nd && index < g_nd.len)
__CPROVER_ensures(__CPROVER_return_value == PFX_SUCCESS || __CPROVER_return_value == PFX_ERROR)
__CPROVER_assigns(g_nd.len, g_nd.ary, __CPROVER_object_whole(g_nd.ary), g_realloc_ptr, g_realloc_size);

void h_del_elem(void)
{
	g_tape_n = 0;
	mk_array(0);
	unsigned int index = VND_U32();

	ASSUME(index < g_nd.len);
	const bool gok = g_i < NMAX && g_i + 1 < g_nd.len; /* the ghost pair (g_i, g_i + 1) lies inside the array */
	if (gok) {
		g_og = g_nd.ary[g_i];
		g_og1 = g_nd.ary[g_i + 1];
	}
	const struct data_elem deleted = g_nd.ary[index];
	const unsigned int len0 = g_nd.len;
	struct data_elem *ary0 = g_nd.ary;
	int r = pfx_table_del_elem(&g_nd, index);

	if (r == PFX_SUCCESS) {
		CHECK(g_nd.len == len0 - 1, "C02 delete: one element less");
		if (g_nd.len > 0 && gok) {
			if (g_i < index)
				CHECK(EL_SAME(g_nd.ary[g_i], g_og), "C02 delete: elements before the deleted one stay");
			else if (g_i < g_nd.len)
				CHECK(EL_SAME(g_nd.ary[g_i], g_og1), "C02 delete: elements behind the deleted one move down by one, none is lost");
		} else if (g_nd.len == 0) {
			CHECK(g_nd.ary == NULL, "C02 delete: the last element releases the array");
		}
	} else {
		CHECK(r == PFX_ERROR && g_realloc_fails, "C18 delete fails only if the array cannot be shrunk");
		CHECK(g_nd.len == len0 && g_nd.ary == ary0, "C18 a failed delete keeps the length");
		/* same multiset: the deleted element is back (at the end), the others are as after the shift */
		CHECK(EL_SAME(g_nd.ary[len0 - 1], deleted), "C18 a failed delete restores the deleted element");
		if (gok && g_i < index)
			CHECK(EL_SAME(g_nd.ary[g_i], g_og), "C18 a failed delete loses no element (before)");
		else if (gok && g_i < len0 - 1)
			CHECK(EL_SAME(g_nd.ary[g_i], g_og1), "C18 a failed delete loses no element (behind)");
	}
	if (r == PFX_SUCCESS && index + 3 < len0)
		CANARY("delete in the middle of a long array reachable");
	if (r == PFX_SUCCESS && len0 == 1)
		CANARY("delete of the only element reachable");
	if (r == PFX_ERROR)
		CANARY("failed shrink reachable");
}

static int pfx_table_append_elem(struct node_data *data, const struct pfx_record *record)
__CPROVER_requires(data == &g_nd && record == &g_r)
__CPROVER_ensures(__CPROVER_return_value == PFX_SUCCESS || __CPROVER_return_value == PFX_ERROR)
__CPROVER_assigns(g_nd.len, g_nd.ary, __CPROVER_object_whole(g_nd.ary), g_realloc_ptr, g_realloc_size);

void h_append_elem(void)
{
	g_tape_n = 0;
	mk_array(1);
	ASSUME(g_i < g_nd.len);
	g_og = g_nd.ary[g_i];
	const unsigned int len0 = g_nd.len;
	int r = pfx_table_append_elem(&g_nd, &g_r);

	CHECK(g_realloc_size == sizeof(struct data_elem) * ((size_t)len0 + 1), "C02 append asks for room for exactly one more element");
	if (r == PFX_SUCCESS) {
		CHECK(g_nd.len == len0 + 1 && EL_EQ(g_nd.ary[len0], g_r), "C02 append: the record's AS, max length and source land behind the old elements");
		CHECK(EL_SAME(g_nd.ary[g_i], g_og), "C02 append: the old elements stay");
	} else {
		CHECK(r == PFX_ERROR && g_realloc_fails && g_nd.len == len0 && EL_SAME(g_nd.ary[g_i], g_og), "C18 a failed append changes nothing");
	}
	if (r == PFX_SUCCESS && len0 > 2)
		CANARY("append to a long array reachable");
	if (r == PFX_ERROR)
		CANARY("failed append reachable");
}
