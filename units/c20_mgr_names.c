/*
 * C20 -- rtr_mgr_status_to_str: as c20_state_names.c for enum rtr_mgr_status.
 */
#include "verif.h"
#include "spec_enum_names.h"

#include "rtrlib/rtr_mgr.c" /* the real translation unit (static name table) */

#include "contracts/names.h"

VERIF_MAIN(h_c20_mgr)

const char *rtr_mgr_status_to_str(enum rtr_mgr_status status)
__CPROVER_requires(1)
__CPROVER_ensures(NAMES_POST(__CPROVER_return_value, status, spec_mgr_status_NAMES, SPEC_MGR_STATUS_N))
__CPROVER_assigns();

void h_c20_mgr(void)
{
	g_tape_n = 0;
	enum rtr_mgr_status s = (enum rtr_mgr_status)VND_U32();
	const char *r = rtr_mgr_status_to_str(s);

	CHECK(NAMES_POST(r, s, spec_mgr_status_NAMES, SPEC_MGR_STATUS_N), "C20 rtr_mgr_status_to_str: enumerator name / NULL outside");
	if ((unsigned int)s == SPEC_MGR_STATUS_N - 1)
		CANARY("last enumerator reachable");
	if ((unsigned int)s >= SPEC_MGR_STATUS_N)
		CANARY("out-of-range value reachable");
	CANARY("reachable after call");
}
