/*
 * C01 (and the reader side of C16) -- pfx_table_validate_r / pfx_table_validate answer exactly as RFC 6811
 * prescribes over the records on the query's path, for a path of any length the address width admits:
 *   VALID     iff some node on the path covers the query and holds a matching record,
 *   INVALID   iff some node covers and none of the covering nodes holds a matching record,
 *   NOT FOUND iff no node on the path covers.
 * Unbounded in the path (loop contract on the descent, trie_lookup replaced by its contract);
 * records per node: pfx_table_elem_matches is replaced by its contract (client reading g_match[node]).
 * Together with the lemma units (covering records lie on the path in a well-formed trie, C02) this is
 * the statement of C01 about the whole table.
 */
#include "verif.h"

#include "rtrlib/pfx/trie/trie-pfx.c" /* the real translation unit */

#include "spec/spec.h"
#include "contracts/bits.h"
#include "units/trie_spine.h"
#include "contracts/trie.h"
#include "env/env_lock.h"

VERIF_MAIN(h_validate)

static struct node_data g_data[SPINE_N];
static bool g_match[SPINE_N]; /* node k holds a record matching the query's AS and length */
static struct pfx_table g_tab;
static uint32_t g_asn;

/* pfx_table_elem_matches in client reading: the answer for node k's payload is g_match[k]
 * (units/elems.c proves the function against "some element has the AS, non-zero, and max_len >= length") */
static bool pfx_table_elem_matches(struct node_data *data, const uint32_t asn, const uint8_t prefix_len)
__CPROVER_requires(__CPROVER_same_object(data, g_data) && __CPROVER_POINTER_OFFSET(data) % sizeof(struct node_data) == 0 &&
		   __CPROVER_POINTER_OFFSET(data) < sizeof(g_data) && asn == g_asn && prefix_len == g_ql)
__CPROVER_ensures(__CPROVER_return_value == g_match[(__CPROVER_POINTER_OFFSET(data) / sizeof(struct node_data)) < SPINE_N ? (__CPROVER_POINTER_OFFSET(data) / sizeof(struct node_data)) : 0])
__CPROVER_assigns();

int pfx_table_validate_r(struct pfx_table *pfx_table, struct pfx_record **reason, unsigned int *reason_len, const uint32_t asn,
			 const struct lrtr_ip_addr *prefix, const uint8_t prefix_len, enum pfxv_state *result)
__CPROVER_requires(pfx_table == &g_tab && reason == NULL && reason_len == NULL && prefix == &g_q && prefix_len == g_ql && asn == g_asn &&
		   __CPROVER_w_ok(result, sizeof(*result)))
__CPROVER_ensures(__CPROVER_return_value == PFX_SUCCESS)
__CPROVER_assigns(*result, __CPROVER_object_whole(&g_lock), g_tab.ipv4, g_tab.ipv6);

void h_validate(void)
{
	g_tape_n = 0;
	mk_spine();
	g_asn = VND_U32();
	for (unsigned int k = 0; k < SPINE_N; k++) {
		g_nodes[k].data = &g_data[k];
		g_match[k] = VND_BOOL();
	}
	/* the table: this family's root is the first node of the path (NULL for an empty family) */
#ifdef FAM6
	lock_setup(&g_tab, &g_off, g_n ? &g_nodes[0] : NULL);
#else
	lock_setup(&g_tab, g_n ? &g_nodes[0] : NULL, &g_off);
#endif
	/* RFC 6811 over the path, computed independently */
	bool any_cover = false, any_cover_match = false;

	for (unsigned int k = 0; k < SPINE_N; k++)
		if (k < g_n && SP_COVERS(k)) {
			any_cover = true;
			if (g_match[k])
				any_cover_match = true;
		}
	enum pfxv_state res = (enum pfxv_state)77;
	int r = pfx_table_validate_r(&g_tab, NULL, NULL, g_asn, &g_q, g_ql, &res);

	CHECK(r == PFX_SUCCESS, "C01 validation without reason list cannot fail");
	/* "for all nodes k" is stated for the arbitrary ghost node g_k fixed before the call; "some node" is
	 * stated against the independently computed any_cover / any_cover_match */
	const bool gk = g_k < g_n;

	CHECK(res == BGP_PFXV_STATE_VALID || res == BGP_PFXV_STATE_INVALID || res == BGP_PFXV_STATE_NOT_FOUND, "C01 one of the three answers");
	if (res == BGP_PFXV_STATE_VALID)
		CHECK(any_cover_match, "C01 VALID only if some record covers the route with the same non-zero AS and max length >= route length");
	if (res == BGP_PFXV_STATE_INVALID) {
		CHECK(any_cover, "C01 INVALID only if at least one record covers the route");
		if (gk && SP_COVERS(g_k < SPINE_N ? g_k : 0))
			CHECK(!g_match[g_k < SPINE_N ? g_k : 0], "C01 INVALID only if no covering record matches");
	}
	if (res == BGP_PFXV_STATE_NOT_FOUND && gk)
		CHECK(!SP_COVERS(g_k < SPINE_N ? g_k : 0), "C01 NOT FOUND only if no record covers the route");
	CHECK(!g_lock.error && g_lock.held == 0 && g_lock.acquisitions == 1, "C16 the table is read inside exactly one critical section, the lock is released on every path");
	if (res == BGP_PFXV_STATE_VALID && g_n == SPINE_N)
		CANARY("valid on a full-depth path reachable");
	if (res == BGP_PFXV_STATE_INVALID && g_n > 3)
		CANARY("invalid reachable");
	if (res == BGP_PFXV_STATE_NOT_FOUND && g_n > 3)
		CANARY("not found on a non-empty path reachable");
	if (g_n == 0)
		CANARY("empty family reachable");
}
