/*
 * C06 / C10 / C16 -- spki_table_swap: the two tables exchange exactly their hash tables (every field, every
 * bucket segment pointer) and lists; both WRITE locks are held at every access to either table's containers
 * (the containers are parked as junk while a table's lock is free, see units/spki_ops.c), both are released on
 * return; callbacks and comparators stay with their table.  Complete (loop-free apart from constant-size copies).
 */
#include "verif.h"

#include "rtrlib/spki/hashtable/ht-spkitable.c" /* the real translation unit */

VERIF_MAIN(h_spki_swap)

#ifdef VERIF_NATIVE
/* native replay: out-of-line tommyds / allocator functions the translation unit references but the swap never reaches */
void tommy_hashlin_init(tommy_hashlin *h) { abort(); }
void tommy_hashlin_done(tommy_hashlin *h) { abort(); }
void tommy_hashlin_insert(tommy_hashlin *h, tommy_hashlin_node *n, void *d, tommy_hash_t k) { abort(); }
void *tommy_hashlin_remove(tommy_hashlin *h, tommy_search_func *c, const void *a, tommy_hash_t k) { abort(); }
void *tommy_hashlin_remove_existing(tommy_hashlin *h, tommy_hashlin_node *n) { abort(); }
void *lrtr_malloc(size_t s) { abort(); }
void *lrtr_realloc(void *p, size_t s) { abort(); }
void lrtr_free(void *p) { abort(); }
#endif

static struct spki_table g_a, g_b;
static tommy_hashlin g_ha, g_hb, g_junk_ht; /* the real containers, parked aside */
static tommy_list g_la, g_lb;
static tommy_hashlin_node *g_seg[4];
static tommy_node g_nodes[2], g_junk_node;
struct lk {
	int a, b;
	bool error;
};
static struct lk g_lk;

int pthread_rwlock_wrlock(pthread_rwlock_t *l)
{
	if (l == &g_a.lock) {
		if (g_lk.a)
			g_lk.error = true;
		g_lk.a = 2;
		g_a.hashtable = g_ha;
		g_a.list = g_la;
	} else if (l == &g_b.lock) {
		if (g_lk.b)
			g_lk.error = true;
		g_lk.b = 2;
		g_b.hashtable = g_hb;
		g_b.list = g_lb;
	} else {
		g_lk.error = true;
	}
	return 0;
}
int pthread_rwlock_rdlock(pthread_rwlock_t *l)
{
	g_lk.error = true; /* a swap must not settle for a read lock */
	return 0;
}
int pthread_rwlock_unlock(pthread_rwlock_t *l)
{
	if (l == &g_a.lock) {
		if (!g_lk.a)
			g_lk.error = true;
		g_ha = g_a.hashtable;
		g_la = g_a.list;
		g_a.hashtable = g_junk_ht;
		g_a.list = &g_junk_node;
		g_lk.a = 0;
	} else if (l == &g_b.lock) {
		if (!g_lk.b)
			g_lk.error = true;
		g_hb = g_b.hashtable;
		g_lb = g_b.list;
		g_b.hashtable = g_junk_ht;
		g_b.list = &g_junk_node;
		g_lk.b = 0;
	} else {
		g_lk.error = true;
	}
	return 0;
}

static void mk_ht(tommy_hashlin *h, unsigned int which)
{
	for (unsigned int i = 0; i < TOMMY_HASHLIN_BIT_MAX; i++)
		h->bucket[i] = VND_BOOL() ? &g_seg[2 * which + (VND_U8() & 1)] : NULL;
	h->bucket_bit = VND_U32();
	h->bucket_max = VND_U32();
	h->bucket_mask = VND_U32();
	h->low_max = VND_U32();
	h->low_mask = VND_U32();
	h->split = VND_U32();
	h->count = VND_U32();
	h->state = VND_U32();
}
static bool ht_eq(const tommy_hashlin *x, const tommy_hashlin *y)
{
	bool same = x->bucket_bit == y->bucket_bit && x->bucket_max == y->bucket_max && x->bucket_mask == y->bucket_mask && x->low_max == y->low_max &&
		    x->low_mask == y->low_mask && x->split == y->split && x->count == y->count && x->state == y->state;

	for (unsigned int i = 0; i < TOMMY_HASHLIN_BIT_MAX; i++)
		same = same && x->bucket[i] == y->bucket[i];
	return same;
}
static void cb_a(struct spki_table *t, const struct spki_record r, const bool added)
{
}
static void cb_b(struct spki_table *t, const struct spki_record r, const bool added)
{
}

void h_spki_swap(void)
{
	g_tape_n = 0;
	mk_ht(&g_ha, 0);
	mk_ht(&g_hb, 1);
	g_la = VND_BOOL() ? &g_nodes[0] : NULL;
	g_lb = VND_BOOL() ? &g_nodes[1] : NULL;
	const tommy_hashlin ha = g_ha, hb = g_hb;
	tommy_list la = g_la, lb = g_lb;

	g_a.hashtable = g_junk_ht;
	g_b.hashtable = g_junk_ht;
	g_a.list = g_b.list = &g_junk_node;
	g_a.update_fp = cb_a;
	g_b.update_fp = cb_b;
	g_a.cmp_fp = key_entry_cmp;
	g_b.cmp_fp = NULL;
	g_lk.a = g_lk.b = 0;
	g_lk.error = false;
	spki_table_swap(&g_a, &g_b);
	CHECK(!g_lk.error && g_lk.a == 0 && g_lk.b == 0, "C06/C16 swap takes both WRITE locks once and releases both");
	CHECK(ht_eq(&g_ha, &hb) && ht_eq(&g_hb, &ha), "C06 swap exchanges the two hash tables completely, read and written under the locks");
	CHECK(g_la == lb && g_lb == la, "C06 swap exchanges the two lists, read and written under the locks");
	CHECK(g_a.update_fp == cb_a && g_b.update_fp == cb_b && g_a.cmp_fp == key_entry_cmp && g_b.cmp_fp == NULL, "C06 callbacks and comparators stay with their table");
	if (la && !lb)
		CANARY("swap with an empty table reachable");
	CANARY("reachable after call");
}
