/*
 * C01 / C02 -- the path lemma, for all prefixes, lengths and depths of both families (complete, loop-free):
 * a record (p, l) stored at depth d <= l that covers a route (q, ql) -- l <= ql and equal leading l bits -- has
 * the same bit as q at every position k < d.  A node hangs on the side its own bit selects at every level
 * (units/trie_shape.c), so every covering record lies on the path trie_lookup / pfx_table_validate_r walk for q,
 * and a record equal to a key lies on the path trie_lookup_exact walks for the key.
 */
#include "verif.h"
#include "rtrlib/lib/ip_private.h"
#include "spec/spec.h"
#include "units/mk_addr.h"

VERIF_MAIN(h_lemma_path)

void h_lemma_path(void)
{
	g_tape_n = 0;
	const bool v6 = VND_BOOL();
	struct lrtr_ip_addr p = v6 ? mk_addr6() : mk_addr4(), q = v6 ? mk_addr6() : mk_addr4();
	const unsigned int w = v6 ? 128 : 32;
	unsigned int l = VND_U8(), ql = VND_U8(), d = VND_U8(), k = VND_U8();

	ASSUME(l <= w && ql <= w && d <= l && k < d);
	bool covers;

	if (v6)
		covers = l <= ql && SPEC_TOP128_W(p.u.addr6.addr, l, 0) == SPEC_TOP128_W(q.u.addr6.addr, l, 0) &&
			 SPEC_TOP128_W(p.u.addr6.addr, l, 1) == SPEC_TOP128_W(q.u.addr6.addr, l, 1) &&
			 SPEC_TOP128_W(p.u.addr6.addr, l, 2) == SPEC_TOP128_W(q.u.addr6.addr, l, 2) &&
			 SPEC_TOP128_W(p.u.addr6.addr, l, 3) == SPEC_TOP128_W(q.u.addr6.addr, l, 3);
	else
		covers = l <= ql && SPEC_TOP32(p.u.addr4.addr, l) == SPEC_TOP32(q.u.addr4.addr, l);
	if (covers) {
		if (v6)
			CHECK(SPEC_BIT128(p.u.addr6.addr, k < 128 ? k : 0) == SPEC_BIT128(q.u.addr6.addr, k < 128 ? k : 0), "C01 lemma: a covering record shares the route's branch bit at every level above its depth (IPv6)");
		else
			CHECK(SPEC_BIT32(p.u.addr4.addr, k < 32 ? k : 0) == SPEC_BIT32(q.u.addr4.addr, k < 32 ? k : 0), "C01 lemma: a covering record shares the route's branch bit at every level above its depth (IPv4)");
		CANARY("covering pair reachable");
	}
	if (!covers)
		CANARY("non-covering pair reachable");
}
