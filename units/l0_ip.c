/*
 * L0 (C01, C02, C04) -- struct lrtr_ip_addr level: lrtr_ip_addr_get_bits (against the contracts of the
 * v4/v6 extractors), lrtr_ip_addr_is_zero, lrtr_ip_addr_equal (with the real v4/v6 comparators inlined).
 * Loop-free: complete.
 */
#include "verif.h"

#include "rtrlib/lib/ip.c"
#include "rtrlib/lib/ipv4.c"
#include "rtrlib/lib/ipv6.c"
#include "rtrlib/lib/utils.c"

#include "contracts/bits.h"
#include "units/mk_addr.h"

VERIF_MAIN(H_ENTRY)

void h_l0_ip_get_bits(void)
{
	g_tape_n = 0;
	struct lrtr_ip_addr a = mk_addr_any();
	uint8_t from = VND_U8(), n = VND_U8();

	ASSUME(IP_GETBITS_PRE(a.ver, from, n));
	struct lrtr_ip_addr r = lrtr_ip_addr_get_bits(&a, from, n);

	CHECK(IP_GETBITS_POST(r, &a, from, n), "L0 lrtr_ip_addr_get_bits dispatches to the family's extractor");
	if (a.ver == LRTR_IPV6 && from == 127)
		CANARY("v6 last bit reachable");
	if (a.ver == LRTR_IPV4 && n == 0)
		CANARY("v4 zero-length reachable");
}

void h_l0_ip_is_zero(void)
{
	g_tape_n = 0;
	struct lrtr_ip_addr a = mk_addr_any();
	bool r = lrtr_ip_addr_is_zero(a);

	CHECK(r == IP_IS_ZERO_SPEC(a), "L0 lrtr_ip_addr_is_zero");
	if (r && a.ver == LRTR_IPV6)
		CANARY("v6 zero reachable");
	if (!r)
		CANARY("non-zero reachable");
}

void h_l0_ip_equal(void)
{
	g_tape_n = 0;
	struct lrtr_ip_addr a = mk_addr_any(), b = mk_addr_any();
	bool r = lrtr_ip_addr_equal(a, b);

	CHECK(r == IP_EQUAL_SPEC(a, b), "L0 lrtr_ip_addr_equal: same family and same bits");
	if (r && a.ver == LRTR_IPV6)
		CANARY("v6 equal reachable");
	if (!r && a.ver == b.ver)
		CANARY("same family, different reachable");
	if (a.ver != b.ver)
		CANARY("different family reachable");
}
