/*
 * C04 / C13 / C14 -- rtr_receive_pdu for EVERY content of the 3248-byte receive buffer (= every byte
 * stream: reception is zero-copy, see env/env_packets.h), every outcome of the two transport reads,
 * every socket version / first-PDU flag.  Loop-free: complete.
 */
#include "verif.h"

#include "env/env_libc_pre.h"
#include "rtrlib/rtr/packets.c" /* the real translation unit */

#include "env/env_packets.h"
#include "contracts/packets.h"

#ifndef H_ENTRY
#define H_ENTRY h_receive_pdu
#endif
VERIF_MAIN(H_ENTRY)

struct blob {
	unsigned char b[3248];
};
static struct blob g_pdu __attribute__((aligned(8)));
static struct blob g_raw;
static struct rtr_socket g_sock;
static struct rtr_socket g_pre;
static struct tr_socket g_tr;

static void mk_socket(void)
{
	g_sock.tr_socket = &g_tr;
	g_sock.version = VND_U8();
	ASSUME(g_sock.version <= 1);
	g_sock.has_received_pdus = VND_BOOL();
	g_sock.state = (enum rtr_socket_state)VND_U8();
	ASSUME(g_sock.state <= RTR_CLOSED);
	g_sock.connection_state_fp = NULL;
	g_sock.session_id = VND_U16();
	g_sock.request_session_id = VND_BOOL();
	g_sock.serial_number = VND_U32();
	g_sock.last_update = (time_t)VND_U32();
	g_sock.is_resetting = VND_BOOL();
	g_pre = g_sock;
	struct env_log z = {0};

	g_env = z;
}

void h_receive_pdu(void)
{
	g_tape_n = 0;
	mk_socket();
	g_raw = g_pdu; /* the bytes the cache sends = the (arbitrary) initial content of the buffer */
	time_t timeout = (time_t)VND_U32();

	int r = rtr_receive_pdu(&g_sock, &g_pdu, sizeof(g_pdu), timeout);

	const unsigned char *raw = g_raw.b;
	const unsigned int rlen = RAW_LEN(raw);
	const bool hdr_ok = g_env.rx_calls >= 1 && g_env.rx_ret[0] == 8;
	const bool len_sane = rlen >= 8 && rlen <= SPEC_MAX_PDU_LEN;
	const bool shut = g_pre.state == RTR_SHUTDOWN;
	/* the version the socket ends up with */
	const unsigned int v1 = g_sock.version;

	CHECK(RECV_POST(r, &g_sock, g_pdu.b, g_pre.version, g_pre.has_received_pdus, g_pre.state),
	      "C04/C13 rtr_receive_pdu: contract used by all callers (return codes, well-formed host-order PDU on success, version rule, state)");
	/* ---- C13: downward only, only on the first PDU of a connection */
	CHECK(v1 <= g_pre.version, "C13 version never raised");
	CHECK(v1 == g_pre.version || (!g_pre.has_received_pdus && hdr_ok && len_sane && RAW_VER(raw) == 0 && RAW_TYPE(raw) != SPEC_PDU_ERROR && g_pre.version == 1 && v1 == 0),
	      "C13 version lowered only by a first PDU of a lower supported version that is not an Error Report");
	/* ---- C04: transport reads: header first, then exactly the announced rest, inside the buffer */
	if (!shut)
		CHECK(g_env.rx_calls >= 1 && g_env.rx_ptr[0] == (void *)&g_pdu && g_env.rx_len[0] == 8 && g_env.rx_timeout[0] == timeout,
		      "C04 first read is the 8-byte header into the start of the buffer with the caller's timeout");
	CHECK(g_env.rx_calls <= 2, "C04 at most two reads per PDU");
	if (g_env.rx_calls == 2)
		CHECK(hdr_ok && len_sane && rlen > 8 && g_env.rx_ptr[1] == (void *)(g_pdu.b + 8) && g_env.rx_len[1] == rlen - 8,
		      "C04 second read is exactly the announced payload, behind the header");
	/* ---- success: complete, well-formed, right version, decoded */
	if (r == 0) {
		CHECK(!shut && hdr_ok && len_sane && (rlen == 8 || (g_env.rx_calls == 2 && g_env.rx_ret[1] == (int)(rlen - 8))), "C04 success only after the whole PDU was read");
		CHECK(SPEC_PDU_LEN_OK(raw, rlen), "C04 success only for a known type whose length field is exactly the length of that type");
		CHECK(RAW_VER(raw) == v1 || RAW_TYPE(raw) == SPEC_PDU_ERROR, "C13 success only for the negotiated version (Error Reports excepted)");
		CHECK(HDR_DECODED(g_pdu.b, raw), "C04 header delivered in host byte order");
		CHECK(BODY_DECODED(g_pdu.b, raw), "C04 payload fields delivered in host byte order");
		CHECK(g_env.tx_calls == 0, "C14 nothing is sent for a good PDU");
		CHECK(g_sock.state == g_pre.state, "C04 success leaves the socket state alone");
	}
	/* ---- refusals */
	if (hdr_ok && !len_sane) {
		CHECK(r == -1 && g_env.rx_calls == 1, "C04 length below header size or above the maximum: refused, payload never read");
		CHECK(shut || g_sock.state == RTR_ERROR_FATAL, "C04 bad length is fatal for the connection");
	}
	if (hdr_ok && len_sane && RAW_VER(raw) != v1 && RAW_TYPE(raw) != SPEC_PDU_ERROR) {
		CHECK(r == -1 && g_env.rx_calls == 1, "C13 foreign version refused before its payload is read");
		if (!shut)
			CHECK(g_env.tx_calls == 1 && ERRPDU_WELLFORMED(g_env.tx_bytes, g_env.tx_len, v1, SPEC_ERR_UNEXPECTED_VERSION, raw, 8),
			      "C13 foreign version answered with an Unexpected-Protocol-Version report");
	}
	if (r == 0 || !hdr_ok)
		CHECK(g_env.tx_calls == 0, "C14 no report without a violation");
	/* ---- C14: every report sent is well-formed and echoes the offending header byte for byte */
	if (g_env.tx_calls > 0) {
		CHECK(g_env.tx_calls == 1 && hdr_ok && RAW_TYPE(raw) != SPEC_PDU_ERROR, "C14 exactly one report, never in reply to an Error Report");
		CHECK(g_env.tx_len <= ENV_SENT_MAX, "unit: log buffer large enough");
		CHECK(RAW_VER(g_env.tx_bytes) == v1 && RAW_TYPE(g_env.tx_bytes) == SPEC_PDU_ERROR && RAW_LEN(g_env.tx_bytes) == g_env.tx_len &&
			      RAW_U32(g_env.tx_bytes, 8) == 8 && RAW_U32(g_env.tx_bytes, 20) == g_env.tx_len - 24,
		      "C14 report: negotiated version, type 10, length field = bytes sent, text length consistent");
		CHECK(g_env.tx_bytes[12] == raw[0] && g_env.tx_bytes[13] == raw[1] && g_env.tx_bytes[14] == raw[2] && g_env.tx_bytes[15] == raw[3] &&
			      g_env.tx_bytes[16] == raw[4] && g_env.tx_bytes[17] == raw[5] && g_env.tx_bytes[18] == raw[6] && g_env.tx_bytes[19] == raw[7],
		      "C14 encapsulated PDU is a byte-exact copy of the offending header as received");
	}
	/* a complete PDU that is malformed is reported */
	if (!shut && hdr_ok && len_sane && RAW_TYPE(raw) != SPEC_PDU_ERROR && (RAW_VER(raw) == v1) &&
	    (rlen == 8 || (g_env.rx_calls == 2 && g_env.rx_ret[1] == (int)(rlen - 8))) && !SPEC_PDU_LEN_OK(raw, rlen))
		CHECK(r == -1 && g_env.tx_calls == 1 && g_sock.state == RTR_ERROR_FATAL, "C04/C14 wrong length for the type or unknown type: refused, reported, fatal");
	/* transport failures are handed up */
	if (!shut && g_env.rx_calls >= 1 && g_env.rx_ret[0] == -2)
		CHECK(r == -2, "C04 time-out of the header read is reported as would-block");
	if (!shut && g_env.rx_calls >= 1 && g_env.rx_ret[0] == -4)
		CHECK(r == -4 && g_sock.state == g_pre.state && g_env.tx_calls == 0, "C13 a connection closed by the cache is reported as such to the caller (who may downgrade)");
	if (!shut && g_env.rx_calls >= 1 && g_env.rx_ret[0] == -1)
		CHECK(r == -1 && g_sock.state == RTR_ERROR_TRANSPORT, "C04 transport error");
	/* frame */
	CHECK(g_sock.session_id == g_pre.session_id && g_sock.serial_number == g_pre.serial_number && g_sock.request_session_id == g_pre.request_session_id &&
		      g_sock.last_update == g_pre.last_update && g_sock.is_resetting == g_pre.is_resetting && g_sock.refresh_interval == g_pre.refresh_interval,
	      "C04 receive never touches session bookkeeping");

	if (r == 0 && RAW_TYPE(raw) == SPEC_PDU_ERROR && rlen > 100)
		CANARY("long error report accepted reachable");
	if (r == 0 && RAW_TYPE(raw) == SPEC_PDU_ROUTER_KEY)
		CANARY("router key accepted reachable");
	if (r == 0 && RAW_TYPE(raw) == SPEC_PDU_EOD && RAW_VER(raw) == 1)
		CANARY("v1 end of data accepted reachable");
	if (v1 < g_pre.version)
		CANARY("downgrade reachable");
	if (g_env.tx_calls == 1 && RAW_U16(g_env.tx_bytes, 2) == SPEC_ERR_UNEXPECTED_VERSION)
		CANARY("unexpected version report reachable");
	if (r == -1 && hdr_ok && rlen > SPEC_MAX_PDU_LEN)
		CANARY("oversized reachable");
	if (r == -4)
		CANARY("closed reachable");
	CANARY("reachable after call");
}
