/*
 * C17 (and the initial states of C05 / C13) -- rtr_init rejects intervals outside the RFC 8210 ranges
 * and otherwise sets every field; a fresh socket requests a session (first query = Reset Query), holds
 * no data (last_update == 0) and starts at the highest protocol version.  Complete.
 */
#include "verif.h"

#include "rtrlib/rtr/rtr.c" /* the real translation unit */

#include "contracts/intervals.h"
#include "contracts/rtr_init.h"
#include "env/env_log.h"

VERIF_MAIN(h_c17_init)

static struct rtr_socket g_sock;
static struct rtr_socket g_pre;
static struct tr_socket g_tr;
static struct pfx_table g_pt;
static struct spki_table g_st;
static int g_c, g_g;
#define OLDG(e) (*(__typeof__(e) *)((char *)&g_pre + ((char *)&(e) - (char *)&g_sock)))
static void cb(const struct rtr_socket *s, const enum rtr_socket_state st, void *a, void *b) {}

void h_c17_init(void)
{
	g_tape_n = 0;
	g_sock.expire_interval = VND_U32();
	g_sock.refresh_interval = VND_U32();
	g_sock.retry_interval = VND_U32();
	g_sock.tr_socket = VND_BOOL() ? &g_tr : NULL;
	g_pre = g_sock;
	unsigned int rf = VND_U32(), ex = VND_U32(), rt = VND_U32();
	enum rtr_interval_mode mode = (enum rtr_interval_mode)VND_U32();
	struct tr_socket *tr = VND_BOOL() ? &g_tr : NULL;
	rtr_connection_state_fp fp = VND_BOOL() ? cb : NULL;

	int r = rtr_init(&g_sock, tr, &g_pt, &g_st, rf, ex, rt, mode, fp, &g_c, &g_g);

	CHECK(INIT_POST(r, &g_sock, OLDG, tr, &g_pt, &g_st, rf, ex, rt, mode, fp, &g_c, &g_g),
	      "C17 rtr_init: INVALID_PARAM iff an interval is outside its RFC 8210 range, else all fields set");
	CHECK(RTR_INVALID_PARAM == -2 && RTR_SUCCESS == 0, "C17 enumerator numbering assumed by the spec");
	if (r == 0)
		CANARY("success reachable");
	if (r == -2 && rf == 0)
		CANARY("refresh 0 rejected reachable");
	if (r == -2 && ex == 172801)
		CANARY("expire max+1 rejected reachable");
	CANARY("reachable after call");
}
