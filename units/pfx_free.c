/*
 * C09 / C18 -- pfx_table_free (destruction of a table with a callback installed) on EVERY trie shape of 2
 * levels (root with up to two children, 1..2 records per node, any prefixes / lengths satisfying the trie
 * invariant): every stored record is reported removed exactly once WITH ITS OWN prefix and length, AS, max
 * length and source; nothing else is reported; every node, payload and element array is released exactly once;
 * the root is NULL afterwards.  BOUNDED stand-in (3 node slots, IPv4 family; the IPv6 loop iteration runs on an
 * empty family).
 */
#include "verif.h"

#include "rtrlib/pfx/trie/trie.c"
#include "rtrlib/pfx/trie/trie-pfx.c" /* the real translation units */

#include "spec/spec.h"
#include "contracts/bits.h"
#include "units/mk_addr.h"

VERIF_MAIN(h_pfx_free)

#define FN 3
static struct pfx_table g_tab;
static struct trie_node g_t[FN];
static struct node_data g_d[FN];
static struct data_elem g_e[FN][2];
static bool g_present[FN];
static unsigned int g_hits[FN][2]; /* callbacks that name record (i, j) exactly */
static unsigned int g_cb, g_cb_bad;
static unsigned int g_free_node[FN], g_free_data[FN], g_free_ary[FN], g_free_other;
static struct lrtr_ip_addr g_p0[FN];
static uint8_t g_l0[FN];

static void update_cb(struct pfx_table *t, const struct pfx_record r, const bool added)
{
	bool hit = false;

	g_cb++;
	if (added || t != &g_tab)
		g_cb_bad++;
	for (unsigned int i = 0; i < FN; i++)
		for (unsigned int j = 0; j < 2; j++)
			if (!hit && g_present[i] && j < g_d[i].len && r.prefix.ver == LRTR_IPV4 && r.prefix.u.addr4.addr == g_p0[i].u.addr4.addr &&
			    r.min_len == g_l0[i] && r.asn == g_e[i][j].asn && r.max_len == g_e[i][j].max_len && r.socket == g_e[i][j].socket) {
				g_hits[i][j]++;
				hit = true;
			}
	if (!hit)
		g_cb_bad++;
}
#ifdef VERIF_NATIVE
/* native replay: the destruction path never allocates; these only satisfy the linker */
void *lrtr_malloc(size_t n)
{
	abort();
}
void *lrtr_realloc(void *p, size_t n)
{
	abort();
}
#endif
void lrtr_free(void *p)
{
	bool hit = false;

	for (unsigned int i = 0; i < FN; i++) {
		if (p == &g_t[i]) {
			g_free_node[i]++;
			hit = true;
		} else if (p == &g_d[i]) {
			g_free_data[i]++;
			hit = true;
		} else if (p == g_e[i]) {
			g_free_ary[i]++;
			hit = true;
		}
	}
	if (!hit && p)
		g_free_other++;
}
int pthread_rwlock_wrlock(pthread_rwlock_t *l)
{
	return 0;
}
int pthread_rwlock_unlock(pthread_rwlock_t *l)
{
	return 0;
}
int pthread_rwlock_destroy(pthread_rwlock_t *l)
{
	return 0;
}

void h_pfx_free(void)
{
	g_tape_n = 0;
	unsigned int total = 0;

	for (unsigned int i = 0; i < FN; i++) {
		g_present[i] = (i == 0) ? VND_BOOL() : (g_present[0] && VND_BOOL());
		g_t[i].prefix = mk_addr4();
		g_t[i].len = VND_U8() % 33;
		g_t[i].data = &g_d[i];
		g_t[i].parent = i ? &g_t[0] : NULL;
		g_t[i].lchild = NULL;
		g_t[i].rchild = NULL;
		g_d[i].len = 1 + (VND_U8() & 1);
		g_d[i].ary = g_e[i];
		for (unsigned int j = 0; j < 2; j++) {
			g_e[i][j].asn = VND_U32();
			g_e[i][j].max_len = VND_U8();
			g_e[i][j].socket = (const struct rtr_socket *)(uintptr_t)(0x1000 + (VND_U8() & 1));
			g_hits[i][j] = 0;
		}
		g_p0[i] = g_t[i].prefix;
		g_l0[i] = g_t[i].len;
		if (g_present[i])
			total += g_d[i].len;
		if (i && g_present[i])
			ASSUME(g_t[i].len >= g_t[0].len);
		g_free_node[i] = g_free_data[i] = g_free_ary[i] = 0;
	}
	/* distinct (prefix, length) per node, distinct records within a node: otherwise a callback cannot be attributed */
	ASSUME(!(g_present[1] && g_p0[1].u.addr4.addr == g_p0[0].u.addr4.addr && g_l0[1] == g_l0[0]));
	ASSUME(!(g_present[2] && g_p0[2].u.addr4.addr == g_p0[0].u.addr4.addr && g_l0[2] == g_l0[0]));
	ASSUME(!(g_present[1] && g_present[2] && g_p0[2].u.addr4.addr == g_p0[1].u.addr4.addr && g_l0[2] == g_l0[1]));
	for (unsigned int i = 0; i < FN; i++)
		ASSUME(!(g_e[i][0].asn == g_e[i][1].asn && g_e[i][0].max_len == g_e[i][1].max_len && g_e[i][0].socket == g_e[i][1].socket));
	if (g_present[1])
		g_t[0].lchild = &g_t[1];
	if (g_present[2])
		g_t[0].rchild = &g_t[2];
	g_tab.ipv4 = g_present[0] ? &g_t[0] : NULL;
	g_tab.ipv6 = NULL;
	g_tab.update_fp = update_cb;
	g_cb = g_cb_bad = g_free_other = 0;
	pfx_table_free(&g_tab);

	CHECK(g_tab.ipv4 == NULL && g_tab.ipv6 == NULL, "C09 a destroyed table is empty");
	CHECK(g_cb == total && g_cb_bad == 0, "C09 destruction reports exactly one removal per stored record, each with the record's own prefix, length, AS, max length and source");
	for (unsigned int i = 0; i < FN; i++) {
		for (unsigned int j = 0; j < 2; j++)
			CHECK(g_hits[i][j] == ((g_present[i] && j < g_d[i].len) ? 1u : 0u), "C09 no removal is missing and none is repeated");
		CHECK(g_free_node[i] == (g_present[i] ? 1u : 0u) && g_free_data[i] == (g_present[i] ? 1u : 0u) && g_free_ary[i] == (g_present[i] ? 1u : 0u),
		      "C18 every node, payload and element array is released exactly once");
	}
	CHECK(g_free_other == 0, "C18 nothing else is released");
	if (g_present[0] && g_present[1] && g_present[2])
		CANARY("root with two children reachable");
	if (!g_present[0])
		CANARY("empty table reachable");
	if (g_present[0] && !g_present[1] && !g_present[2] && g_d[0].len == 2)
		CANARY("single node with two records reachable");
}
