/*
 * C01 L1 -- trie_lookup returns the FIRST node on the query's path that covers the query (RFC 6811
 * covering: len <= query length and equal leading bits), or NULL, for a path of any length the
 * address width admits.  Unbounded: the while loop is closed by an inductive loop contract
 * (attached to the unmodified source through --loop-contracts-file, see plan.py).
 */
#include "verif.h"

#include "rtrlib/pfx/trie/trie.c" /* the real translation unit */

#include "spec/spec.h"
#include "contracts/bits.h"
#include "units/trie_spine.h"
#include "contracts/trie.h"

#ifndef H_ENTRY
#define H_ENTRY h_trie_lookup
#endif
VERIF_MAIN(H_ENTRY)

void h_trie_lookup(void)
{
	g_tape_n = 0;
	mk_spine();
	unsigned int s = VND_U32();
	unsigned int lvl = s;
	const struct trie_node *root;

	if (s < g_n) {
		root = &g_nodes[s];
	} else {
		root = NULL;
		ASSUME(s == g_n);
	}
	struct trie_node *r = trie_lookup(root, &g_q, g_ql, &lvl);

	CHECK(LOOKUP_POST(r, s, &lvl), "C01 trie_lookup: first covering node on the path, NULL if none");
	if (r == NULL && s == 0 && g_n == SPINE_N)
		CANARY("full-depth path without covering node reachable");
	if (r != NULL && lvl == SPINE_N - 1)
		CANARY("covering node at the deepest level reachable");
	if (r != NULL && lvl > s + 2)
		CANARY("covering node below the start reachable");
	if (root == NULL)
		CANARY("empty path reachable");
}

/* second entry of this file: is_left_child against its contract (complete, loop-free) */
void h_is_left_child(void)
{
	g_tape_n = 0;
	struct lrtr_ip_addr a = mk_addr_any();
	unsigned int lvl = VND_U32();
	bool r = is_left_child(&a, lvl);

	CHECK(r == spec_is_left(a, lvl), "C01/C04 is_left_child: bit lvl is zero; 'left' once every address bit is used up");
	if (lvl == 32 && a.ver == LRTR_IPV4)
		CANARY("IPv4 depth 32 reachable");
	if (lvl == 4000000000u)
		CANARY("huge level reachable");
	if (!r && a.ver == LRTR_IPV6 && lvl == 127)
		CANARY("IPv6 last bit set reachable");
}
