/*
 * C05 / C14 -- what the client hands to the transport.
 *   h_change_state  rtr_change_socket_state                                  (complete)
 *   h_serial_query  rtr_send_serial_query: bytes = RFC 8210 5.4 encoding      (complete)
 *   h_reset_query   rtr_send_reset_query:  bytes = RFC 8210 5.3 encoding      (complete)
 *   h_error_report  rtr_send_error_pdu_from_host for an offending PDU of ENC bytes (compile-time: 0, 8,
 *                   12, 20, 24, 32, 123 = every size a call site uses) and a text of TXT bytes:
 *                   the report is well-formed and its encapsulated PDU equals the offending PDU
 *                   AS RECEIVED, i.e. re-encoding undoes the decoding done by the receive path (complete
 *                   for each size; the real conversion, assembly and send functions are inlined)
 */
#include "verif.h"

#include "env/env_libc_pre.h"
#include "rtrlib/rtr/packets.c" /* the real translation unit */

#include "env/env_packets.h"
#include "contracts/packets.h"
#include "contracts/fsm_client.h"

#ifndef H_ENTRY
#define H_ENTRY h_serial_query
#endif
VERIF_MAIN(H_ENTRY)

static struct rtr_socket g_sock;
static struct rtr_socket g_pre;
static struct tr_socket g_tr;
static unsigned int g_cb_calls;
static enum rtr_socket_state g_cb_state;

static void cb(const struct rtr_socket *s, const enum rtr_socket_state st, void *a, void *b)
{
	g_cb_calls++;
	g_cb_state = st;
}

static void mk_socket(void)
{
	g_sock.tr_socket = &g_tr;
	g_sock.version = VND_U8();
	ASSUME(g_sock.version <= 1);
	g_sock.has_received_pdus = VND_BOOL();
	g_sock.state = (enum rtr_socket_state)VND_U8();
	ASSUME(g_sock.state <= RTR_CLOSED);
	g_sock.connection_state_fp = NULL;
	g_sock.session_id = VND_U32();
	g_sock.request_session_id = VND_BOOL();
	g_sock.serial_number = VND_U32();
	g_sock.last_update = (time_t)VND_U32();
	g_sock.is_resetting = VND_BOOL();
	g_sock.refresh_interval = VND_U32();
	g_sock.expire_interval = VND_U32();
	g_sock.retry_interval = VND_U32();
	g_pre = g_sock;
	struct env_log z = {0};

	g_env = z;
	g_cb_calls = 0;
}

/* contracts under verification, phrased over the snapshot g_pre taken by the harness before the call */
#define PRE_IS_SNAPSHOT(s)                                                                             \
	((s) == &g_sock && SOCK_BOOKKEEPING_SAME(s, &g_pre) && (s)->state == g_pre.state && (s)->version == g_pre.version && \
	 (s)->has_received_pdus == g_pre.has_received_pdus && (s)->version <= 1 && (s)->state <= RTR_CLOSED)
void rtr_change_socket_state(struct rtr_socket *rtr_socket, const enum rtr_socket_state new_state)
__CPROVER_requires(PRE_IS_SNAPSHOT(rtr_socket))
__CPROVER_ensures(CSS_POST(rtr_socket, &g_pre, new_state) && SOCK_BOOKKEEPING_SAME(rtr_socket, &g_pre))
__CPROVER_assigns(rtr_socket->state, g_cb_calls, g_cb_state);
int rtr_send_serial_query(struct rtr_socket *rtr_socket)
__CPROVER_requires(PRE_IS_SNAPSHOT(rtr_socket) && rtr_socket->connection_state_fp == NULL)
__CPROVER_ensures(SENDQ_POST(__CPROVER_return_value, rtr_socket, &g_pre))
__CPROVER_assigns(rtr_socket->state, __CPROVER_object_whole(&g_env));
int rtr_send_reset_query(struct rtr_socket *rtr_socket)
__CPROVER_requires(PRE_IS_SNAPSHOT(rtr_socket) && rtr_socket->connection_state_fp == NULL)
__CPROVER_ensures(SENDQ_POST(__CPROVER_return_value, rtr_socket, &g_pre))
__CPROVER_assigns(rtr_socket->state, __CPROVER_object_whole(&g_env));
static int rtr_send_error_pdu_from_host(const struct rtr_socket *rtr_socket, const void *erroneous_pdu,
					const uint32_t erroneous_pdu_len, const enum pdu_error_type error,
					const char *err_text, const uint32_t err_text_len)
__CPROVER_requires(PRE_IS_SNAPSHOT(rtr_socket))
__CPROVER_requires((erroneous_pdu == NULL && erroneous_pdu_len == 0) || (erroneous_pdu_len >= 8 && __CPROVER_r_ok(erroneous_pdu, erroneous_pdu_len)))
__CPROVER_requires(16ull + erroneous_pdu_len + err_text_len <= SPEC_MAX_PDU_LEN && (err_text_len == 0 || __CPROVER_r_ok(err_text, err_text_len)))
__CPROVER_ensures(__CPROVER_return_value == 0 || __CPROVER_return_value == -1)
__CPROVER_assigns(__CPROVER_object_whole(&g_env));

void h_change_state(void)
{
	g_tape_n = 0;
	mk_socket();
	bool with_cb = VND_BOOL();
	enum rtr_socket_state ns = (enum rtr_socket_state)VND_U8();

	ASSUME(ns <= RTR_CLOSED);
	if (with_cb)
		g_sock.connection_state_fp = cb;
	rtr_change_socket_state(&g_sock, ns);
	CHECK(CSS_POST(&g_sock, &g_pre, ns), "rtr_change_socket_state: new state unless equal or shut down (contract assumed by units/fsm.c)");
	CHECK(SOCK_BOOKKEEPING_SAME(&g_sock, &g_pre) && g_sock.version == g_pre.version, "rtr_change_socket_state touches only the state");
	CHECK(g_cb_calls == ((with_cb && g_sock.state != g_pre.state) ? 1u : 0u) && (g_cb_calls == 0 || g_cb_state == ns),
	      "C15 the state callback fires exactly once per actual change, with the new state");
	if (g_sock.state != g_pre.state)
		CANARY("change reachable");
	if (g_pre.state == RTR_SHUTDOWN)
		CANARY("shutdown is final reachable");
}

static void check_query_common(int r, size_t len)
{
	CHECK(SENDQ_POST(r, &g_sock, &g_pre), "C05 query functions: success, or transport error state; nothing else changes (contract assumed by units/fsm.c)");
	if (g_pre.state == RTR_SHUTDOWN)
		CHECK(r == -1 && g_env.tx_calls == 0, "a socket that is shut down sends nothing");
	else
		CHECK(g_env.tx_calls == 1 && g_env.tx_len == len && (r == 0) == (g_env.tx_ret == (int)len), "C14 exactly one complete PDU is handed to the transport; success iff it was sent");
}

void h_serial_query(void)
{
	g_tape_n = 0;
	mk_socket();
	int r = rtr_send_serial_query(&g_sock);

	check_query_common(r, 12);
	if (g_env.tx_calls == 1)
		CHECK(RAW_VER(g_env.tx_bytes) == g_pre.version && RAW_TYPE(g_env.tx_bytes) == SPEC_PDU_SERIAL_QUERY &&
			      RAW_U16(g_env.tx_bytes, 2) == (g_pre.session_id & 0xffff) && RAW_LEN(g_env.tx_bytes) == 12 &&
			      RAW_U32(g_env.tx_bytes, 8) == g_pre.serial_number,
		      "C05/C14 Serial Query = (negotiated version, type 1, session id, length 12, serial number) in network byte order");
	if (r == 0)
		CANARY("sent reachable");
	if (r == -1 && g_sock.state == RTR_ERROR_TRANSPORT)
		CANARY("transport failure reachable");
}

void h_reset_query(void)
{
	g_tape_n = 0;
	mk_socket();
	int r = rtr_send_reset_query(&g_sock);

	check_query_common(r, 8);
	if (g_env.tx_calls == 1)
		CHECK(RAW_VER(g_env.tx_bytes) == g_pre.version && RAW_TYPE(g_env.tx_bytes) == SPEC_PDU_RESET_QUERY && RAW_U16(g_env.tx_bytes, 2) == 0 &&
			      RAW_LEN(g_env.tx_bytes) == 8,
		      "C05/C14 Reset Query = (negotiated version, type 2, zero, length 8)");
	if (r == 0)
		CANARY("sent reachable");
}

#ifndef ENC
#define ENC 20
#endif
#ifndef TXT
#define TXT 16
#endif
#if ENC > 0
struct rawpdu {
	unsigned char b[ENC];
};
static struct rawpdu g_rawpdu __attribute__((aligned(8)));
static struct rawpdu g_hostpdu __attribute__((aligned(8)));
#endif
static char g_txt[TXT + 1];

void h_error_report(void)
{
	g_tape_n = 0;
	mk_socket();
	enum pdu_error_type code = (enum pdu_error_type)VND_U8();
	const void *off = NULL;

#if ENC > 0
	/* an offending PDU as the receive path delivers it: raw bytes of a known type whose length field is
	 * ENC (or, for ENC == 8, just the header of any PDU), decoded by the real conversion functions */
	const unsigned char *raw = g_rawpdu.b;

	ASSUME(RAW_TYPE(raw) != SPEC_PDU_ERROR);
#if ENC > 8
	ASSUME(RAW_LEN(raw) == ENC && SPEC_PDU_LEN_OK(raw, ENC));
#endif
	g_hostpdu = g_rawpdu;
	rtr_pdu_header_to_host_byte_order(g_hostpdu.b);
#if ENC > 8
	rtr_pdu_footer_to_host_byte_order(g_hostpdu.b);
#endif
	off = g_hostpdu.b;
#endif
	int r = rtr_send_error_pdu_from_host(&g_sock, off, ENC, code, TXT ? g_txt : NULL, TXT);

	if (g_pre.state == RTR_SHUTDOWN) {
		CHECK(g_env.tx_calls == 0, "a socket that is shut down sends nothing");
	} else {
		CHECK(g_env.tx_calls == 1, "C14 the report is handed to the transport (also when no offending PDU is attached)");
		CHECK(g_env.tx_len == 16 + ENC + TXT && g_env.tx_len <= ENV_SENT_MAX, "C14 bytes sent = header + length + offender + length + text");
		CHECK(ERRPDU_WELLFORMED(g_env.tx_bytes, g_env.tx_len, g_pre.version, (unsigned int)code & 0xffff, 0, ENC),
		      "C14 Error Report: negotiated version, type 10, code, length field = bytes sent, nested lengths consistent");
#if ENC > 0
		bool same = true;

		for (unsigned int i = 0; i < ENC; i++)
			same = same && g_env.tx_bytes[12 + i] == g_rawpdu.b[i];
		CHECK(same, "C14 the encapsulated PDU is byte for byte the offending PDU as it was received");
#endif
		bool txt_same = true;

		for (unsigned int i = 0; i < TXT; i++)
			txt_same = txt_same && g_env.tx_bytes[16 + ENC + i] == (unsigned char)g_txt[i];
		CHECK(txt_same, "C14 the text is copied behind its length");
		CHECK((r == 0) == (g_env.tx_ret == (int)g_env.tx_len), "success iff the transport took the whole report");
	}
	CHECK(SOCK_BOOKKEEPING_SAME(&g_sock, &g_pre) && g_sock.state == g_pre.state && g_sock.version == g_pre.version, "sending a report changes nothing in the socket");
	if (g_env.tx_calls == 1 && r == 0)
		CANARY("report sent reachable");
#if ENC > 8
	if (RAW_TYPE(raw) == SPEC_PDU_IPV6 || RAW_TYPE(raw) == SPEC_PDU_IPV4 || RAW_TYPE(raw) == SPEC_PDU_ROUTER_KEY || RAW_TYPE(raw) == SPEC_PDU_EOD || RAW_TYPE(raw) == SPEC_PDU_SERIAL_NOTIFY)
		CANARY("typed offender reachable");
#endif
}
