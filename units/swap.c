/*
 * C06 / C16 -- pfx_table_swap: the two tables exchange exactly their IPv4 and IPv6 roots, both write locks are
 * held at every access to either table's roots, both are released on return, nothing else is written
 * (callbacks, locks' identity).  Complete (loop-free).
 * The sequential protocol "build aside, swap under both write locks" (together with units/store.c, thorough
 * tier, which checks that the live tables are not touched before the swap) is what the property's atomicity
 * rests on; the interleaving argument itself is not mechanised (DESIGN.md, C06).
 */
#include "verif.h"

#include "rtrlib/pfx/trie/trie-pfx.c" /* the real translation unit */

VERIF_MAIN(h_pfx_swap)

static struct pfx_table g_a, g_b;
static struct trie_node g_n[4], g_junk2;
struct lk {
	int a, b; /* 0 free, 2 write */
	bool error;
	bool access_unlocked; /* roots of a table were visible while its lock was free */
};
static struct lk g_lk;
/* roots are parked as junk while a table's lock is free (see env/env_lock.h for the idea) */
static struct trie_node *g_ra4, *g_ra6, *g_rb4, *g_rb6;

int pthread_rwlock_wrlock(pthread_rwlock_t *l)
{
	if (l == &g_a.lock) {
		if (g_lk.a)
			g_lk.error = true;
		g_lk.a = 2;
		g_a.ipv4 = g_ra4;
		g_a.ipv6 = g_ra6;
	} else if (l == &g_b.lock) {
		if (g_lk.b)
			g_lk.error = true;
		g_lk.b = 2;
		g_b.ipv4 = g_rb4;
		g_b.ipv6 = g_rb6;
	} else {
		g_lk.error = true;
	}
	return 0;
}
int pthread_rwlock_rdlock(pthread_rwlock_t *l)
{
	g_lk.error = true; /* a swap must not settle for a read lock */
	return 0;
}
int pthread_rwlock_unlock(pthread_rwlock_t *l)
{
	if (l == &g_a.lock) {
		if (!g_lk.a)
			g_lk.error = true;
		g_ra4 = g_a.ipv4;
		g_ra6 = g_a.ipv6;
		g_a.ipv4 = g_a.ipv6 = &g_junk2;
		g_lk.a = 0;
	} else if (l == &g_b.lock) {
		if (!g_lk.b)
			g_lk.error = true;
		g_rb4 = g_b.ipv4;
		g_rb6 = g_b.ipv6;
		g_b.ipv4 = g_b.ipv6 = &g_junk2;
		g_lk.b = 0;
	} else {
		g_lk.error = true;
	}
	return 0;
}

void pfx_table_swap(struct pfx_table *a, struct pfx_table *b)
__CPROVER_requires(a == &g_a && b == &g_b)
__CPROVER_ensures(1)
__CPROVER_assigns(g_a.ipv4, g_a.ipv6, g_b.ipv4, g_b.ipv6, __CPROVER_object_whole(&g_lk), g_ra4, g_ra6, g_rb4, g_rb6);

void h_pfx_swap(void)
{
	g_tape_n = 0;
	g_ra4 = VND_BOOL() ? &g_n[0] : NULL;
	g_ra6 = VND_BOOL() ? &g_n[1] : NULL;
	g_rb4 = VND_BOOL() ? &g_n[2] : NULL;
	g_rb6 = VND_BOOL() ? &g_n[3] : NULL;
	struct trie_node *a4 = g_ra4, *a6 = g_ra6, *b4 = g_rb4, *b6 = g_rb6;

	g_a.ipv4 = g_a.ipv6 = g_b.ipv4 = g_b.ipv6 = &g_junk2;
	g_a.update_fp = NULL;
	g_b.update_fp = NULL;
	g_lk.a = g_lk.b = 0;
	g_lk.error = false;
	pfx_table_swap(&g_a, &g_b);
	CHECK(!g_lk.error && g_lk.a == 0 && g_lk.b == 0, "C06/C16 swap takes both WRITE locks once and releases both");
	CHECK(g_ra4 == b4 && g_ra6 == b6 && g_rb4 == a4 && g_rb6 == a6, "C06 swap exchanges exactly the two tables' IPv4 and IPv6 roots, read and written under the locks");
	if (a4 && !b4)
		CANARY("swap with an empty family reachable");
	CANARY("reachable after call");
}
