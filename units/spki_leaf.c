/*
 * C10 -- leaf functions of ht-spkitable.c, complete (all inputs; the byte loops have constant bounds):
 *   h_key_cmp   key_entry_cmp returns 0 exactly when AS, all 20 SKI bytes, all 91 key bytes and the source are
 *               equal (records differing in any of the four fields are distinct keys)
 *   h_key_conv  spki_record_to_key_entry / key_entry_to_spki_record copy all four fields, byte for byte
 */
#include "verif.h"

#include "rtrlib/spki/hashtable/ht-spkitable.c" /* the real translation unit */

#ifndef H_ENTRY
#define H_ENTRY h_key_cmp
#endif
VERIF_MAIN(H_ENTRY)

static struct key_entry g_a, g_b;

static void mk_entry(struct key_entry *e)
{
	e->asn = VND_U32();
	for (unsigned int i = 0; i < SKI_SIZE; i++)
		e->ski[i] = VND_U8();
	for (unsigned int i = 0; i < SPKI_SIZE; i++)
		e->spki[i] = VND_U8();
	e->socket = (const struct rtr_socket *)(uintptr_t)(VND_U8() & 3);
}

void h_key_cmp(void)
{
	g_tape_n = 0;
	mk_entry(&g_a);
	mk_entry(&g_b);
	bool same = g_a.asn == g_b.asn && g_a.socket == g_b.socket;

	for (unsigned int i = 0; i < SKI_SIZE; i++)
		same = same && g_a.ski[i] == g_b.ski[i];
	for (unsigned int i = 0; i < SPKI_SIZE; i++)
		same = same && g_a.spki[i] == g_b.spki[i];
	int r = key_entry_cmp(&g_a, &g_b);

	CHECK((r == 0) == same, "C10 two keys are the same entry exactly when AS, SKI, key and source are all equal");
	if (r == 0)
		CANARY("equal reachable");
	if (r != 0 && g_a.asn == g_b.asn && g_a.socket == g_b.socket && g_a.spki[90] != g_b.spki[90])
		CANARY("difference in the last key byte reachable");
}

void h_key_conv(void)
{
	g_tape_n = 0;
	mk_entry(&g_a);
	struct spki_record r;
	struct key_entry back;

	key_entry_to_spki_record(&g_a, &r);
	spki_record_to_key_entry(&r, &back);
	bool same = r.asn == g_a.asn && r.socket == g_a.socket && back.asn == g_a.asn && back.socket == g_a.socket;

	for (unsigned int i = 0; i < SKI_SIZE; i++)
		same = same && r.ski[i] == g_a.ski[i] && back.ski[i] == g_a.ski[i];
	for (unsigned int i = 0; i < SPKI_SIZE; i++)
		same = same && r.spki[i] == g_a.spki[i] && back.spki[i] == g_a.spki[i];
	CHECK(same, "C10 converting between stored entry and record keeps AS, SKI, key and source byte for byte");
	CANARY("reachable after call");
}
