/*
 * L0 (C01, C04) -- bit extraction: lrtr_get_bits, lrtr_ipv4_get_bits, lrtr_ipv6_get_bits against the
 * bit-string spec for ALL values / positions / lengths admitted by the (weakest) preconditions.
 * Loop-free: complete.
 */
#include "verif.h"

#include "rtrlib/lib/utils.c"
#include "rtrlib/lib/ipv4.c"
#include "rtrlib/lib/ipv6.c"

#include "contracts/bits.h"

VERIF_MAIN(H_ENTRY)

void h_l0_get_bits(void)
{
	g_tape_n = 0;
	uint32_t v = VND_U32();
	uint8_t from = VND_U8(), n = VND_U8();

	ASSUME(GETBITS_PRE(from, n));
	uint32_t r = lrtr_get_bits(v, from, n);

	CHECK(r == GETBITS_SPEC(v, from, n), "L0 lrtr_get_bits = val & mask[from, from+number)");
	if (n == 0)
		CANARY("zero-length extraction reachable");
	if (from == 31 && n == 1)
		CANARY("last bit reachable");
	if (n == 32 && from == 0)
		CANARY("full word reachable");
}

void h_l0_ipv4_get_bits(void)
{
	g_tape_n = 0;
	struct lrtr_ipv4_addr a = {.addr = VND_U32()};
	uint8_t from = VND_U8(), n = VND_U8();

	ASSUME(GETBITS_PRE(from, n));
	struct lrtr_ipv4_addr r = lrtr_ipv4_get_bits(&a, from, n);

	CHECK(r.addr == GETBITS_SPEC(a.addr, from, n), "L0 lrtr_ipv4_get_bits = val & mask");
	CANARY("reachable after call");
}

void h_l0_ipv6_get_bits(void)
{
	g_tape_n = 0;
	struct lrtr_ipv6_addr a = {.addr = {VND_U32(), VND_U32(), VND_U32(), VND_U32()}};
	uint8_t first = VND_U8(), q = VND_U8();

	ASSUME(GETBITS6_PRE(first, q));
	struct lrtr_ipv6_addr r = lrtr_ipv6_get_bits(&a, first, q);

	CHECK(r.addr[0] == GETBITS6_SPEC_W(a.addr, first, q, 0) && r.addr[1] == GETBITS6_SPEC_W(a.addr, first, q, 1) &&
		      r.addr[2] == GETBITS6_SPEC_W(a.addr, first, q, 2) && r.addr[3] == GETBITS6_SPEC_W(a.addr, first, q, 3),
	      "L0 lrtr_ipv6_get_bits = leading q bits / single bit of the 128-bit value");
	if (first == 0 && q == 0)
		CANARY("zero-length prefix reachable");
	if (first == 0 && q == 128)
		CANARY("full prefix reachable");
	if (first == 127)
		CANARY("last bit reachable");
	if (first == 0 && q == 77)
		CANARY("mid-word prefix reachable");
}
