/*
 * C10 / C16 / C18 -- the operations of ht-spkitable.c on hand-built bucket chains and lists of at most 3 entries
 * (bounded in the number of entries, complete in everything else: every AS / SKI / key / source pattern over
 * two-value pools incl. entries that differ in the LAST byte of SKI or key only, every allocation outcome):
 *   h_spki_add / h_spki_remove   REAL spki_table_add_entry / spki_table_remove_entry with the REAL inline
 *        tommy_hashlin_search + REAL comparator key_entry_cmp + REAL tommy list operations; the out-of-line
 *        tommyds functions (tommy_hashlin_insert / _remove / _remove_existing; third-party, ASSUMED) are
 *        executable readings of their documentation.  A record is a duplicate exactly if an entry with the
 *        same AS, SKI, key AND source is stored; an add stores the record byte for byte in hash table and list
 *        and reports it once; a remove unlinks, releases and reports exactly the first matching entry.
 *   h_spki_get_all / h_spki_search / h_spki_src_remove   the REAL walking loops: lookup by (AS, SKI) returns
 *        exactly the entries with that AS and SKI, lookup by SKI exactly those with that SKI, each once, in
 *        order, copied byte for byte; removal by source unlinks, releases and reports exactly that source's
 *        entries and keeps the others in order.
 * Every bucket of the hash table points to the one chain ("a bucket holds all entries with the hash and may
 * hold others" is the tommyds contract the lookups rely on).
 */
#include "verif.h"

#include "rtrlib/spki/hashtable/ht-spkitable.c" /* the real translation unit */

#ifdef VERIF_NATIVE
/* native replay: out-of-line tommyds functions the translation unit references but no unit here reaches */
void tommy_hashlin_init(tommy_hashlin *h)
{
	abort();
}
void tommy_hashlin_done(tommy_hashlin *h)
{
	abort();
}
#endif
#ifndef VERIF_NATIVE
/* memcmp of the C library, ASSUMED: the readable regions are checked ONCE for the whole length (one obligation
 * per call instead of twelve per byte, which is what makes CBMC's own byte loop with --pointer-check intractable
 * for 91-byte keys compared several times); the byte loop itself then runs with the per-access checks off.
 * (memcpy stays CBMC's own: a byte-wise copy loop through char pointers into an array of structs at a symbolic
 * index gave a spurious failure in cbmc 6.11, see DESIGN.md.) */
int memcmp(const void *s1, const void *s2, size_t n)
{
	__CPROVER_assert(__CPROVER_r_ok(s1, n) && __CPROVER_r_ok(s2, n), "memcmp: both regions readable for the whole length");
	const unsigned char *a = s1, *b = s2;
	int res = 0;
#pragma CPROVER check push
#pragma CPROVER check disable "pointer"
#pragma CPROVER check disable "bounds"
#pragma CPROVER check disable "pointer-overflow"
#pragma CPROVER check disable "signed-overflow"
	for (size_t i = 0; i < n; i++) {
		res = (int)a[i] - (int)b[i];
		if (res != 0)
			break;
	}
#pragma CPROVER check pop
	return res;
}
#endif

#ifndef H_ENTRY
#define H_ENTRY h_spki_add
#endif
VERIF_MAIN(H_ENTRY)

static struct spki_table g_tab;
static struct spki_record g_rec;
static struct key_entry g_pool[4]; /* what lrtr_malloc hands out, in order */
#define g_new g_pool[0]
static struct spki_table g_dst; /* destination of a copy (not parked: it is private to the copying thread) */
static int g_dlock;
static unsigned int g_dacq;
struct kcalls {
	unsigned int search, insert, list_insert, hremove, frees, cb, mallocs;
	bool bad;
	bool cb_added;
	struct spki_record cb_rec;
	int lock;
	unsigned int acquisitions;
	bool lock_error;
};
static struct kcalls g_kc;

static void key_cb(struct spki_table *t, const struct spki_record r, const bool added)
{
	g_kc.cb++;
	g_kc.cb_added = added;
	g_kc.cb_rec = r;
	if (t != &g_tab)
		g_kc.bad = true;
}
/* The table's containers are only meaningful while the lock is held (another thread may be changing them):
 * outside a critical section the real hash table / list are parked aside and the table holds junk (no bucket
 * arrays, an empty list), installed on acquisition and parked again on release; what a writer did to them under
 * the write lock becomes the table's state.  A read of table state before the lock or after the unlock
 * therefore dereferences a null bucket array or misses the entries and breaks the checks below.
 * ASSUMPTION: pthread rwlock semantics. */
static tommy_hashlin g_real_ht, g_junk_ht;
static tommy_list g_real_list;
static void lock_enter(pthread_rwlock_t *l, int mode)
{
	if (l == &g_dst.lock) {
		if (g_dlock)
			g_kc.lock_error = true;
		g_dlock = mode;
		g_dacq++;
		return;
	}
	if (g_kc.lock || l != &g_tab.lock)
		g_kc.lock_error = true;
	g_kc.lock = mode;
	g_kc.acquisitions++;
	g_tab.hashtable = g_real_ht;
	g_tab.list = g_real_list;
}
int pthread_rwlock_wrlock(pthread_rwlock_t *l)
{
	lock_enter(l, 2);
	return 0;
}
int pthread_rwlock_rdlock(pthread_rwlock_t *l)
{
	lock_enter(l, 1);
	return 0;
}
int pthread_rwlock_unlock(pthread_rwlock_t *l)
{
	if (l == &g_dst.lock) {
		if (!g_dlock)
			g_kc.lock_error = true;
		g_dlock = 0;
		return 0;
	}
	if (!g_kc.lock || l != &g_tab.lock)
		g_kc.lock_error = true;
	if (g_kc.lock == 2) {
		g_real_ht = g_tab.hashtable;
		g_real_list = g_tab.list;
	}
	g_kc.lock = 0;
	g_tab.hashtable = g_junk_ht;
	g_tab.list = NULL;
	return 0;
}

static bool rec_is_entry(const struct spki_record *r, const struct key_entry *e)
{
	bool same = r->asn == e->asn && r->socket == e->socket;

	for (unsigned int i = 0; i < SKI_SIZE; i++)
		same = same && r->ski[i] == e->ski[i];
	for (unsigned int i = 0; i < SPKI_SIZE; i++)
		same = same && r->spki[i] == e->spki[i];
	return same;
}

/* ------------------------------------------------------------------ walking loops on hand-built chains (plain, bounded) */
#ifndef KN
#define KN 3
#endif
static struct key_entry g_ent[KN];
static tommy_hashlin_node *g_buckets[64];
static unsigned int g_n;
static bool g_alloc_fail;
static unsigned int g_free_ent[KN], g_free_other, g_free_new, g_hremove_existing;
static struct spki_record g_out[KN + 1];
static unsigned int g_realloc_calls, g_npool;

void *lrtr_realloc(void *ptr, size_t size)
{
	g_realloc_calls++;
	if (g_alloc_fail && VND_BOOL())
		return NULL;
	__CPROVER_assert(size <= sizeof(g_out), "unit: result fits the modelled buffer");
	return g_out; /* in-place growth */
}
void lrtr_free(void *p)
{
	bool hit = false;

	for (unsigned int i = 0; i < KN; i++)
		if (p == &g_ent[i]) {
			g_free_ent[i]++;
			hit = true;
		}
	for (unsigned int i = 0; i < 4; i++)
		if (p == &g_pool[i]) {
			g_free_new++;
			hit = true;
		}
	if (!hit && p && p != g_out)
		g_free_other++;
}
void *lrtr_malloc(size_t size)
{
	g_kc.mallocs++;
	if (size != sizeof(struct key_entry))
		g_kc.bad = true;
	if (g_alloc_fail && VND_BOOL())
		return NULL;
	if (g_npool >= 4) {
		g_kc.bad = true;
		return NULL;
	}
	return &g_pool[g_npool++];
}
/* third-party, ASSUMED: links the node into the bucket of the hash */
static tommy_hashlin_node *g_ins_node;
static void *g_ins_data;
static tommy_hash_t g_ins_hash;
void tommy_hashlin_insert(tommy_hashlin *hashlin, tommy_hashlin_node *node, void *data, tommy_hash_t hash)
{
	g_kc.insert++;
	g_ins_node = node;
	g_ins_data = data;
	g_ins_hash = hash;
	if (hashlin == &g_dst.hashtable) {
		if (g_dlock != 2 || node != &((struct key_entry *)data)->hash_node || hash != tommy_inthash_u32(((struct key_entry *)data)->asn))
			g_kc.bad = true;
	} else if (hashlin != &g_tab.hashtable || g_kc.lock != 2) {
		g_kc.bad = true;
	}
}
/* third-party, ASSUMED: unlinks and returns the first element of the hash's bucket the comparator accepts */
static struct key_entry *g_hremoved;
void *tommy_hashlin_remove(tommy_hashlin *hashlin, tommy_search_func *cmp, const void *cmp_arg, tommy_hash_t hash)
{
	g_kc.hremove++;
	if (hashlin != &g_tab.hashtable || g_kc.lock != 2)
		g_kc.bad = true;
	for (unsigned int i = 0; i < KN; i++)
		if (i < g_n && g_ent[i].hash_node.key == hash && cmp(cmp_arg, &g_ent[i]) == 0) {
			g_hremoved = &g_ent[i];
			return &g_ent[i];
		}
	return NULL;
}
void *tommy_hashlin_remove_existing(tommy_hashlin *hashlin, tommy_hashlin_node *node)
{
	/* third-party, ASSUMED: unlinks the node from its bucket and returns its data */
	g_hremove_existing++;
	return node->data;
}

static uint8_t g_skib[2], g_keyb[2];
static uint32_t g_as[2];
static void mk_chain(void)
{
	g_n = VND_U8() % (KN + 1);
	g_as[0] = VND_U32();
	g_as[1] = VND_U32();
	/* byte VALUES are fixed (the code only ever compares them for equality); which entry gets which is free */
	g_skib[0] = 0xA1;
	g_skib[1] = 0xB2;
	g_keyb[0] = 0xC3;
	g_keyb[1] = 0xD4;
	for (unsigned int i = 0; i < KN; i++) {
		const uint8_t sb = g_skib[VND_U8() & 1], kb = g_keyb[VND_U8() & 1];

		g_ent[i].asn = g_as[VND_U8() & 1];
		for (unsigned int b = 0; b < SKI_SIZE; b++)
			g_ent[i].ski[b] = sb;
		for (unsigned int b = 0; b < SPKI_SIZE; b++)
			g_ent[i].spki[b] = kb;
		g_ent[i].ski[SKI_SIZE - 1] = g_skib[VND_U8() & 1];
		g_ent[i].spki[SPKI_SIZE - 1] = g_keyb[VND_U8() & 1];
		g_ent[i].socket = (const struct rtr_socket *)(uintptr_t)(0x1000 + (VND_U8() & 1));
		/* bucket chain and list, both in index order */
		g_ent[i].hash_node.data = &g_ent[i];
		g_ent[i].hash_node.key = tommy_inthash_u32(g_ent[i].asn);
		g_ent[i].hash_node.next = (i + 1 < g_n) ? &g_ent[i + 1].hash_node : NULL;
		g_ent[i].hash_node.prev = i ? &g_ent[i - 1].hash_node : (g_n ? &g_ent[g_n - 1].hash_node : NULL);
		g_ent[i].list_node.data = &g_ent[i];
		g_ent[i].list_node.next = (i + 1 < g_n) ? &g_ent[i + 1].list_node : NULL;
		g_ent[i].list_node.prev = i ? &g_ent[i - 1].list_node : (g_n ? &g_ent[g_n - 1].list_node : NULL);
		g_free_ent[i] = 0;
	}
	for (unsigned int b = 0; b < 64; b++)
		g_buckets[b] = g_n ? &g_ent[0].hash_node : NULL;
	g_tab.hashtable.bucket_bit = 6;
	g_tab.hashtable.bucket_max = 64;
	g_tab.hashtable.bucket_mask = 63;
	g_tab.hashtable.low_max = 64;
	g_tab.hashtable.low_mask = 63;
	g_tab.hashtable.split = 0;
	g_tab.hashtable.state = 0;
	g_tab.hashtable.count = g_n;
	for (unsigned int i = 0; i < 6; i++)
		g_tab.hashtable.bucket[i] = g_buckets;
	g_tab.list = g_n ? &g_ent[0].list_node : NULL;
	g_tab.update_fp = key_cb;
	g_tab.cmp_fp = key_entry_cmp;
	/* park the containers: nobody holds the lock */
	g_real_ht = g_tab.hashtable;
	g_real_list = g_tab.list;
	g_tab.hashtable = g_junk_ht;
	g_tab.list = NULL;
	struct kcalls z = {0};

	g_kc = z;
	g_alloc_fail = VND_BOOL();
	g_free_other = g_hremove_existing = g_realloc_calls = g_free_new = 0;
	g_hremoved = NULL;
	g_npool = 0;
	g_dlock = 0;
	g_dacq = 0;
	g_ins_node = NULL;
	g_ins_data = NULL;
	/* the record handed to add / remove, from the same pools */
	{
		const uint8_t sb = g_skib[VND_U8() & 1], kb = g_keyb[VND_U8() & 1];

		g_rec.asn = g_as[VND_U8() & 1];
		for (unsigned int b = 0; b < SKI_SIZE; b++)
			g_rec.ski[b] = sb;
		for (unsigned int b = 0; b < SPKI_SIZE; b++)
			g_rec.spki[b] = kb;
		g_rec.ski[SKI_SIZE - 1] = g_skib[VND_U8() & 1];
		g_rec.spki[SPKI_SIZE - 1] = g_keyb[VND_U8() & 1];
		g_rec.socket = (const struct rtr_socket *)(uintptr_t)(0x1000 + (VND_U8() & 1));
	}
	if (VND_BOOL())
		g_tab.update_fp = NULL;
}
static bool ski_is(const uint8_t *a, const uint8_t *b)
{
	bool same = true;

	for (unsigned int i = 0; i < SKI_SIZE; i++)
		same = same && a[i] == b[i];
	return same;
}

static int g_lr;
static unsigned int g_lnres;
static void check_lookup(bool by_as)
{
	const uint32_t qas = g_as[VND_U8() & 1];
	const uint8_t qb = g_skib[VND_U8() & 1];
	uint8_t qski[SKI_SIZE];

	for (unsigned int i = 0; i < SKI_SIZE; i++)
		qski[i] = qb;
	qski[SKI_SIZE - 1] = g_skib[VND_U8() & 1];
	struct spki_record *res = (struct spki_record *)&g_kc; /* junk */
	unsigned int nres = 77;
	int r = by_as ? spki_table_get_all(&g_tab, qas, qski, &res, &nres) : spki_table_search_by_ski(&g_tab, qski, &res, &nres);
	/* what must come back: the matching entries, in chain order */
	unsigned int want[KN], nw = 0;

	for (unsigned int i = 0; i < KN; i++)
		if (i < g_n && ski_is(g_ent[i].ski, qski) && (!by_as || g_ent[i].asn == qas))
			want[nw++] = i;
	CHECK(!g_kc.lock_error && g_kc.lock == 0 && g_kc.acquisitions == 1, "C16 lookup: one read-locked section, released on every path");
	if (r == SPKI_SUCCESS) {
		CHECK(nres == nw, "C10 a lookup returns exactly as many keys as are stored with the AS / SKI asked for");
		CHECK(nw == 0 ? res == NULL : res == g_out, "C10 an empty result is NULL");
		for (unsigned int k = 0; k < KN; k++)
			if (k < nw)
				CHECK(rec_is_entry(&g_out[k], &g_ent[want[k]]), "C10 every key returned is a stored key with the AS / SKI asked for, copied byte for byte, each once");
	} else {
		CHECK(r == SPKI_ERROR && g_alloc_fail, "C18 a lookup fails only on allocation failure");
	}
	CHECK(g_free_other == 0, "C18 nothing foreign is released");
	g_lr = r;
	g_lnres = nres;
}
#define LOOKUP_CANARIES                                                  \
	do {                                                             \
		if (g_lr == SPKI_SUCCESS && g_lnres == 2)                \
			CANARY("two results reachable");                 \
		if (g_lr == SPKI_SUCCESS && g_lnres == 0 && g_n == 3)    \
			CANARY("no result in a full chain reachable");   \
		if (g_lr == SPKI_ERROR)                                  \
			CANARY("allocation failure reachable");          \
	} while (0)
void h_spki_get_all(void)
{
	g_tape_n = 0;
	mk_chain();
	check_lookup(true);
	LOOKUP_CANARIES;
}
void h_spki_search(void)
{
	g_tape_n = 0;
	mk_chain();
	check_lookup(false);
	LOOKUP_CANARIES;
}

void h_spki_add(void)
{
	g_tape_n = 0;
	mk_chain();
	bool dup = false;

	for (unsigned int i = 0; i < KN; i++)
		if (i < g_n && rec_is_entry(&g_rec, &g_ent[i]))
			dup = true;
	int r = spki_table_add_entry(&g_tab, &g_rec);

	CHECK(!g_kc.bad && !g_kc.lock_error && g_kc.lock == 0, "C16 add: one write-locked section, the hash table is touched under it, callbacks name this table");
	CHECK(g_free_other == 0 && g_hremove_existing == 0 && g_kc.hremove == 0, "C10 add removes nothing");
	for (unsigned int i = 0; i < KN; i++)
		CHECK(g_free_ent[i] == 0, "C10 add releases no stored entry");
	tommy_node *n = g_real_list;

	for (unsigned int i = 0; i < KN; i++)
		if (i < g_n) {
			CHECK(n == &g_ent[i].list_node, "C10 add keeps the stored entries in the list, in order");
			n = n ? n->next : NULL;
		}
	if (r == SPKI_ERROR) {
		CHECK(g_alloc_fail && g_kc.insert == 0 && n == NULL && g_kc.cb == 0 && g_kc.acquisitions == 0, "C18 failed allocation: error, nothing touched");
	} else if (dup) {
		CHECK(r == SPKI_DUPLICATE_RECORD && g_kc.insert == 0 && n == NULL && g_kc.cb == 0 && g_free_new == 1, "C10 a record whose AS, SKI, key and source are all stored already is a duplicate: rejected without change, scratch entry released");
	} else {
		CHECK(r == SPKI_SUCCESS && g_kc.insert == 1 && g_free_new == 0, "C10 a record that differs from every stored entry in AS, SKI, key or source is new");
		CHECK(g_ins_node == &g_new.hash_node && g_ins_data == &g_new && g_ins_hash == tommy_inthash_u32(g_rec.asn), "C10 the new entry goes into the bucket of its AS");
		CHECK(n == &g_new.list_node && n->next == NULL && n->data == &g_new, "C10 the new entry is appended to the list");
		CHECK(rec_is_entry(&g_rec, &g_new), "C10 the stored entry carries the record's AS, SKI, key and source byte for byte");
		if (g_tab.update_fp)
			CHECK(g_kc.cb == 1 && g_kc.cb_added && rec_is_entry(&g_kc.cb_rec, &g_new), "C10 a new key is reported once, as added, with its record");
	}
	if (r != SPKI_SUCCESS || !g_tab.update_fp)
		CHECK(g_kc.cb == 0, "C10 nothing is reported otherwise");
	if (r == SPKI_DUPLICATE_RECORD)
		CANARY("duplicate reachable");
	if (r == SPKI_SUCCESS && g_n == KN)
		CANARY("added to a full chain reachable");
	if (r == SPKI_ERROR)
		CANARY("allocation failure reachable");
}

void h_spki_remove(void)
{
	g_tape_n = 0;
	mk_chain();
	int m = -1;

	for (unsigned int i = 0; i < KN; i++)
		if (m < 0 && i < g_n && rec_is_entry(&g_rec, &g_ent[i]))
			m = (int)i;
	int r = spki_table_remove_entry(&g_tab, &g_rec);

	CHECK(!g_kc.bad && !g_kc.lock_error && g_kc.lock == 0 && g_kc.acquisitions == 1, "C16 remove: one write-locked section, the hash table is touched under it");
	CHECK(g_free_other == 0 && g_free_new == 0 && g_kc.insert == 0, "C10 remove adds nothing");
	tommy_node *n = g_real_list;

	for (unsigned int i = 0; i < KN; i++) {
		CHECK(g_free_ent[i] == ((int)i == m ? 1u : 0u), "C10 remove releases exactly the matching entry");
		if (i < g_n && (int)i != m) {
			CHECK(n == &g_ent[i].list_node, "C10 remove keeps every other entry in the list, in order");
			n = n ? n->next : NULL;
		}
	}
	CHECK(n == NULL, "C10 nothing else is in the list");
	if (m < 0) {
		CHECK(r == SPKI_RECORD_NOT_FOUND && g_kc.hremove == 0 && g_kc.cb == 0, "C10 removing a record that differs from every stored entry in AS, SKI, key or source reports not-found without change");
	} else {
		CHECK(r == SPKI_SUCCESS && g_kc.hremove == 1 && g_hremoved == &g_ent[m], "C10 a stored key leaves the hash table and the list");
		if (g_tab.update_fp)
			CHECK(g_kc.cb == 1 && !g_kc.cb_added && rec_is_entry(&g_kc.cb_rec, &g_ent[m]), "C10 a removed key is reported once, as removed, with its record");
	}
	if (r != SPKI_SUCCESS || !g_tab.update_fp)
		CHECK(g_kc.cb == 0, "C10 nothing is reported otherwise");
	if (r == SPKI_SUCCESS && m == 1 && g_n == KN)
		CANARY("second entry of a full chain removed reachable");
	if (r == SPKI_RECORD_NOT_FOUND && g_n == KN)
		CANARY("not found in a full chain reachable");
}

static tommy_hashlin_node *g_dbuckets[1]; /* the destination's buckets: all empty */
void h_spki_copy(void)
{
	g_tape_n = 0;
	mk_chain();
	const struct rtr_socket *s1 = (const struct rtr_socket *)(uintptr_t)0x1000;

	/* an empty destination with a single (empty) bucket: the hash table's own geometry is third-party state */
	g_dst.hashtable = g_junk_ht;
	g_dst.hashtable.bucket[0] = g_dbuckets;
	g_dst.hashtable.bucket_bit = 0;
	g_dst.hashtable.bucket_max = 1;
	g_dst.hashtable.bucket_mask = 0;
	g_dst.hashtable.low_max = 1;
	g_dst.hashtable.low_mask = 0;
	g_dst.hashtable.split = 0;
	g_dst.hashtable.state = 0;
	g_dst.hashtable.count = 0;
	g_dst.list = NULL;
	g_dst.update_fp = NULL;
	g_dst.cmp_fp = key_entry_cmp;
	int r = spki_table_copy_except_socket(&g_tab, &g_dst, (struct rtr_socket *)s1);

	CHECK(!g_kc.bad && !g_kc.lock_error && g_kc.lock == 0 && g_dlock == 0 && g_kc.acquisitions == 1, "C16 copy: one read-locked section on the source, released on every path; the destination is written under its write lock");
	CHECK(g_free_other == 0 && g_kc.cb == 0 && g_kc.hremove == 0 && g_hremove_existing == 0, "C10 copy removes and reports nothing");
	/* the source is unchanged */
	tommy_node *n = g_real_list;

	for (unsigned int i = 0; i < KN; i++) {
		CHECK(g_free_ent[i] == 0, "C10 copy releases no source entry");
		if (i < g_n) {
			CHECK(n == &g_ent[i].list_node, "C10 copy leaves the source list as it was");
			n = n ? n->next : NULL;
		}
	}
	CHECK(n == NULL, "C10 copy leaves the source list as it was (end)");
	/* the destination: the other sources' entries, in order, byte for byte */
	tommy_node *d = g_dst.list;
	unsigned int nd = 0;

	if (r == SPKI_SUCCESS) {
		for (unsigned int i = 0; i < KN; i++)
			if (i < g_n && g_ent[i].socket != s1) {
				CHECK(d != NULL && d->data == &g_pool[nd < 4 ? nd : 0], "C10/C06 the copy holds one entry per entry of another source, in order");
				if (d) {
					const struct key_entry *c = d->data;
					struct spki_record rr;

					key_entry_to_spki_record(&g_ent[i], &rr);
					CHECK(rec_is_entry(&rr, c), "C10/C06 copied entries are equal to the originals in AS, SKI, key and source, byte for byte");
					d = d->next;
				}
				nd++;
			}
		CHECK(d == NULL && g_kc.insert == nd && g_dacq == nd, "C10/C06 the copy holds nothing else (nothing of the excluded source); each entry went into the destination's hash table once");
	} else {
		CHECK(r == SPKI_ERROR && g_alloc_fail, "C18 a copy fails only on allocation failure");
	}
	if (r == SPKI_SUCCESS && nd == 2 && g_n == 3)
		CANARY("two of three copied reachable");
	if (r == SPKI_SUCCESS && nd == 0 && g_n == 3)
		CANARY("nothing to copy reachable");
	if (r == SPKI_ERROR)
		CANARY("allocation failure reachable");
}

void h_spki_src_remove(void)
{
	g_tape_n = 0;
	mk_chain();
	const struct rtr_socket *s1 = (const struct rtr_socket *)(uintptr_t)0x1000;
	bool mine[KN];
	unsigned int nm = 0;

	for (unsigned int i = 0; i < KN; i++) {
		mine[i] = i < g_n && g_ent[i].socket == s1;
		if (mine[i])
			nm++;
	}
	int r = spki_table_src_remove(&g_tab, s1);

	CHECK(r == SPKI_SUCCESS, "C10 removal by source succeeds");
	CHECK(!g_kc.lock_error && g_kc.lock == 0 && g_kc.acquisitions == 1, "C16 removal by source: one write-locked section");
	CHECK(g_hremove_existing == nm && g_kc.cb == (g_tab.update_fp ? nm : 0) && (g_kc.cb == 0 || !g_kc.cb_added) && !g_kc.bad, "C10 update callbacks mirror every removal by source; exactly that source's entries leave the hash table");
	for (unsigned int i = 0; i < KN; i++)
		CHECK(g_free_ent[i] == (mine[i] ? 1u : 0u), "C10/C18 exactly the removed entries are released, each once");
	/* the list afterwards: the other entries, in order */
	tommy_node *n = g_real_list;

	for (unsigned int i = 0; i < KN; i++)
		if (i < g_n && !mine[i]) {
			CHECK(n == &g_ent[i].list_node, "C10 entries of other sources stay in the list, in order");
			n = n ? n->next : NULL;
		}
	CHECK(n == NULL, "C10 nothing else is in the list");
	if (nm == 3)
		CANARY("all three removed reachable");
	if (nm == 1 && g_n == 3 && mine[1])
		CANARY("middle entry removed reachable");
	if (nm == 0 && g_n == 3)
		CANARY("nothing to remove reachable");
}
