/*
 * C11 / C12 (serialisation part only) -- align_byte_sequence + req_stream_size + get_sig_seg_size (bgpsec_utils.c):
 * the byte sequence that is hashed for validation (hop = the most recent signature, which is skipped) and for
 * signing equals the layout of RFC 8205 section 4.2 / 4.1
 *     target AS (4) || for every Secure_Path segment from the most recent on: [next signature segment:
 *     SKI (20) || length (2) || signature] || pCount || flags || AS (4)   ... || algorithm || AFI (2) || SAFI ||
 *     NLRI length || NLRI bytes
 * and fills a stream of req_stream_size() bytes EXACTLY (no write beyond it, no byte left).
 * BOUNDED stand-in: paths of 1..2 hops, signatures of at most 3 bytes, NLRI of at most 32 bits; the layout is
 * checked field by field against an independent serialiser written from the RFC.  Key selection, the per-hop
 * offset arithmetic of rtr_bgpsec_validate_as_path and everything behind OpenSSL are NOT covered.
 */
#include "verif.h"

#include "rtrlib/bgpsec/bgpsec_utils.c" /* the real translation unit */

VERIF_MAIN(h_align)

#ifndef MAXHOPS
#define MAXHOPS 2
#endif
#define MAXSIG 3
static struct rtr_secure_path_seg g_path[MAXHOPS];
static struct rtr_signature_seg g_sig[MAXHOPS];
static uint8_t g_sigbytes[MAXHOPS][MAXSIG];
static uint8_t g_nlri[4];
static struct rtr_bgpsec_nlri g_n;
static struct rtr_bgpsec g_d;
static struct stream g_s;
static uint8_t g_buf[128];
static uint8_t g_ref[128];

void *lrtr_calloc(size_t n, size_t sz)
{
	return calloc(n, sz);
}
void *lrtr_malloc(size_t sz)
{
	return malloc(sz);
}
void lrtr_free(void *p)
{
	free(p);
}
void lrtr_dbg(const char *f, ...)
{
}
#ifdef VERIF_NATIVE
/* native replay links the router-key table (bgpsec_utils.c references it) but not alloc_utils.c */
void *lrtr_realloc(void *p, size_t sz)
{
	return realloc(p, sz);
}
#endif

void h_align(void)
{
	g_tape_n = 0;
	const unsigned int hops = 1 + (VND_U8() % MAXHOPS);
	const enum align_type type = VND_BOOL() ? VALIDATION : SIGNING;
	/* validation: as many signatures as hops; signing: one less (the new one is about to be made) */
	const unsigned int nsig = type == VALIDATION ? hops : hops - 1;

	for (unsigned int i = 0; i < MAXHOPS; i++) {
		g_path[i].pcount = VND_U8();
		g_path[i].flags = VND_U8();
		g_path[i].asn = VND_U32();
		g_path[i].next = (i + 1 < hops) ? &g_path[i + 1] : NULL;
		g_sig[i].sig_len = VND_U8() % (MAXSIG + 1);
		g_sig[i].signature = g_sigbytes[i];
		for (unsigned int b = 0; b < MAXSIG; b++)
			g_sigbytes[i][b] = VND_U8();
		for (unsigned int b = 0; b < SKI_SIZE; b++)
			g_sig[i].ski[b] = (uint8_t)(VND_U8() | 1);
		g_sig[i].next = (i + 1 < nsig) ? &g_sig[i + 1] : NULL;
	}
	g_n.afi = VND_U16();
	g_n.safi = VND_U8();
	g_n.nlri_len = VND_U8() % 33;
	g_n.nlri = g_nlri;
	for (unsigned int b = 0; b < 4; b++)
		g_nlri[b] = VND_U8();
	g_d.alg = VND_U8();
	g_d.safi = VND_U8();
	g_d.afi = VND_U16();
	g_d.my_as = VND_U32();
	g_d.target_as = VND_U32();
	g_d.sigs_len = (uint16_t)nsig;
	g_d.path_len = (uint8_t)hops;
	g_d.nlri = &g_n;
	g_d.sigs = nsig ? &g_sig[0] : NULL;
	g_d.path = &g_path[0];
	if (type == VALIDATION)
		ASSUME(nsig >= 1);

	const size_t want = req_stream_size(&g_d, type);

	CHECK(want <= sizeof(g_buf), "unit: buffer large enough");
	g_s.stream = g_buf;
	g_s.start = g_buf;
	g_s.size = (uint16_t)want;
	g_s.w_head = 0;
	g_s.r_head = 0;
	int r = align_byte_sequence(&g_d, &g_s, type);

	/* ---- independent serialiser, RFC 8205 section 4.2 (validation) / 4.1 (signing) */
	unsigned int n = 0;
	const unsigned int first_sig = type == VALIDATION ? 1 : 0; /* validation skips the signature being checked */

	g_ref[n++] = (uint8_t)(g_d.target_as >> 24);
	g_ref[n++] = (uint8_t)(g_d.target_as >> 16);
	g_ref[n++] = (uint8_t)(g_d.target_as >> 8);
	g_ref[n++] = (uint8_t)g_d.target_as;
	for (unsigned int i = 0; i < MAXHOPS; i++)
		if (i < hops) {
			const unsigned int si = i + first_sig;

			if (si < nsig) {
				for (unsigned int b = 0; b < SKI_SIZE; b++)
					g_ref[n++] = g_sig[si].ski[b];
				g_ref[n++] = (uint8_t)(g_sig[si].sig_len >> 8);
				g_ref[n++] = (uint8_t)g_sig[si].sig_len;
				for (unsigned int b = 0; b < MAXSIG; b++)
					if (b < g_sig[si].sig_len)
						g_ref[n++] = g_sigbytes[si][b];
			}
			g_ref[n++] = g_path[i].pcount;
			g_ref[n++] = g_path[i].flags;
			g_ref[n++] = (uint8_t)(g_path[i].asn >> 24);
			g_ref[n++] = (uint8_t)(g_path[i].asn >> 16);
			g_ref[n++] = (uint8_t)(g_path[i].asn >> 8);
			g_ref[n++] = (uint8_t)g_path[i].asn;
		}
	g_ref[n++] = g_d.alg;
	g_ref[n++] = (uint8_t)(g_d.afi >> 8);
	g_ref[n++] = (uint8_t)g_d.afi;
	g_ref[n++] = g_d.safi;
	g_ref[n++] = g_n.nlri_len;
	for (unsigned int b = 0; b < 4; b++)
		if (b < (unsigned int)(g_n.nlri_len + 7) / 8)
			g_ref[n++] = g_nlri[b];

	CHECK(r == RTR_BGPSEC_SUCCESS, "C11/C12 serialisation succeeds");
	CHECK(g_s.w_head == want, "C11/C12 the serialised bytes fill the stream of req_stream_size() bytes exactly");
	CHECK(n == want, "C11/C12 req_stream_size() is the length of the RFC 8205 byte sequence");
	bool same = true;

	for (unsigned int i = 0; i < sizeof(g_buf); i++)
		if (i < n)
			same = same && g_buf[i] == g_ref[i];
	CHECK(same, "C11/C12 the bytes hashed are the RFC 8205 sequence: target AS, per hop [SKI, length, signature,] pCount, flags, AS, then algorithm, AFI, SAFI, NLRI");
#if MAXHOPS >= 2
	if (type == VALIDATION && hops == 2)
		CANARY("two-hop validation reachable");
#endif
	if (type == SIGNING && hops == 1)
		CANARY("origination reachable");
	if (g_n.nlri_len == 32)
		CANARY("32-bit NLRI reachable");
}
