/*
 * C17 -- rtr_wait_for_sync polls the cache as soon as a Serial Notify arrives and otherwise no later than
 * refresh_interval after the last synchronisation: the time-out handed to the receive path is
 * max(0, last_update + refresh_interval - now); success = Serial Notify or time-out.  Complete.
 */
#include "verif.h"

#include "env/env_libc_pre.h"
#include "rtrlib/rtr/packets.c" /* the real translation unit */

#include "env/env_packets.h"
#include "contracts/packets.h"
#include "contracts/fsm_client.h"

VERIF_MAIN(h_wait)

static struct rtr_socket g_sock;
static struct rtr_socket g_pre;
static struct tr_socket g_tr;
static time_t g_now;
struct wait_ghost {
	time_t expected_timeout;
	int recv_ret;
	unsigned int type;
	unsigned int calls;
};
static struct wait_ghost g_w;

int lrtr_get_monotonic_time(time_t *seconds)
{
	*seconds = g_now;
	return 0;
}

/* rtr_receive_pdu, client reading for this caller: the general contract (contracts/packets.h) plus
 * (a) the obligation on the time-out argument, (b) ghost copies of the outcome */
static int rtr_receive_pdu__wait(struct rtr_socket *rtr_socket, void *pdu, const size_t pdu_len, const time_t timeout)
__CPROVER_requires(__CPROVER_rw_ok(rtr_socket, sizeof(*rtr_socket)) && pdu_len >= 3248 && __CPROVER_rw_ok(pdu, 3248))
__CPROVER_requires(rtr_socket->version <= 1 && __CPROVER_r_ok(rtr_socket->tr_socket, sizeof(struct tr_socket)))
__CPROVER_requires(timeout == g_w.expected_timeout)
__CPROVER_ensures(RECV_POST(__CPROVER_return_value, rtr_socket, pdu, __CPROVER_old(rtr_socket->version),
			    __CPROVER_old(rtr_socket->has_received_pdus), __CPROVER_old(rtr_socket->state)))
__CPROVER_ensures(g_w.recv_ret == __CPROVER_return_value && g_w.type == HP(pdu)->type && g_w.calls == __CPROVER_old(g_w.calls) + 1)
__CPROVER_assigns(__CPROVER_object_upto(pdu, 3248), rtr_socket->version, rtr_socket->has_received_pdus, rtr_socket->state,
		  __CPROVER_object_whole(&g_env), g_w.recv_ret, g_w.type, g_w.calls);

int rtr_wait_for_sync(struct rtr_socket *rtr_socket)
__CPROVER_requires(rtr_socket == &g_sock && rtr_socket->version <= 1 && rtr_socket->connection_state_fp == NULL)
__CPROVER_ensures(WAIT_POST(__CPROVER_return_value, rtr_socket, &g_pre))
__CPROVER_assigns(rtr_socket->version, rtr_socket->has_received_pdus, rtr_socket->state, __CPROVER_object_whole(&g_env),
		  __CPROVER_object_whole(&g_w));

void h_wait(void)
{
	g_tape_n = 0;
	g_sock.tr_socket = &g_tr;
	g_sock.version = VND_U8();
	ASSUME(g_sock.version <= 1);
	g_sock.has_received_pdus = VND_BOOL();
	g_sock.state = (enum rtr_socket_state)VND_U8();
	ASSUME(g_sock.state <= RTR_CLOSED);
	g_sock.connection_state_fp = NULL;
	g_sock.session_id = VND_U16();
	g_sock.request_session_id = VND_BOOL();
	g_sock.serial_number = VND_U32();
	g_sock.last_update = (time_t)(VND_U64() & 0xffffffffffull);
	g_sock.is_resetting = VND_BOOL();
	g_sock.refresh_interval = VND_U32();
	g_sock.expire_interval = VND_U32();
	g_sock.retry_interval = VND_U32();
	g_pre = g_sock;
	g_now = (time_t)(VND_U64() & 0xffffffffffull);
	/* property C17: poll no later than refresh_interval after the last synchronisation */
	time_t due = g_sock.last_update + (time_t)g_sock.refresh_interval;

	g_w.expected_timeout = due > g_now ? due - g_now : 0;
	g_w.calls = 0;
	int r = rtr_wait_for_sync(&g_sock);

	CHECK(WAIT_POST(r, &g_sock, &g_pre), "C17 rtr_wait_for_sync: contract assumed by the state machine unit");
	CHECK(g_w.calls == 1, "C17 exactly one wait on the transport (its time-out is checked as the callee's precondition)");
	CHECK((r == 0) == ((g_w.recv_ret == 0 && g_w.type == SPEC_PDU_SERIAL_NOTIFY) || g_w.recv_ret == -2),
	      "C17 poll on Serial Notify or when the refresh interval has passed, on nothing else");
	if (g_w.recv_ret == -4 && g_pre.state != RTR_SHUTDOWN)
		CHECK(g_sock.state == RTR_ERROR_TRANSPORT, "C13/C04 a closed connection makes the state machine reconnect");
	if (r == 0 && g_w.recv_ret == -2)
		CANARY("refresh expiry reachable");
	if (r == 0 && g_w.recv_ret == 0)
		CANARY("serial notify reachable");
	if (g_w.expected_timeout == 0)
		CANARY("overdue reachable");
	if (r == -1 && g_w.recv_ret == 0)
		CANARY("other pdu reachable");
}
