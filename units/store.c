/*
 * C03 (and the body-side of the C05 / C06 / C13 / C14 / C17 clauses about the payload phase) --
 * rtr_sync_receive_and_store_pdus with the REAL buffering, apply, undo, reload and clean-up code, run
 * against
 *   - the REAL rtr_receive_pdu, fed by a transport stub (executable form of the tr_recv_all contract) that
 *     delivers a SCRIPT: payload PDUs of a compile-time shape with symbolic contents (arbitrary flags,
 *     lengths, AS, prefixes, key material), then one fully symbolic terminal event (any 123 raw bytes --
 *     End of Data of either version with any session, Error Report, unexpected or malformed PDU -- or any
 *     transport outcome),
 *   - the prefix / router-key tables replaced by the executable client reading of their contracts
 *     (env/ghost_tables.h), every mutating call of which may also fail as an allocation failure,
 *   - lrtr_malloc / lrtr_realloc that may fail at every call.
 * BOUNDED stand-in: responses of at most STORE_K events (quick: 4, thorough: 6); every loop is unwound
 * with unwinding assertions.  An unbounded version would need a fold over the buffered PDU sequence in
 * call-free loop invariants; not attempted (DESIGN.md, C03).
 */
#include "verif.h"

#include "env/env_libc_pre.h"
#include "rtrlib/rtr/packets.c" /* the real translation unit */

#define ENV_OWN_RECV_STUB
#define ENV_NO_TX_BYTES
#include "env/env_packets.h"
#include "contracts/packets.h"
#include "contracts/sync.h"
#include "env/ghost_tables.h"

VERIF_MAIN(h_store)

/* shape of the response: PDU types of the payload positions (4 = IPv4 prefix, 6 = IPv6 prefix,
 * 9 = router key, 0 = Serial Notify), contents symbolic; the event after them is the terminal one
 * (End of Data of any version/session, Error Report, unexpected type or any transport outcome). */
#ifndef STORE_SHAPE
#define STORE_SHAPE 4, 4
#endif
#ifdef STORE_EMPTY
/* the response consists of the terminal event only (an End of Data right after the Cache Response, ...) */
static const uint8_t g_shape[1] = {0};
#define STORE_N 0u
#else
static const uint8_t g_shape[] = {STORE_SHAPE};
#define STORE_N (sizeof(g_shape) / sizeof(g_shape[0]))
#endif
#define STORE_K (STORE_N + 1)

struct sentry {
	int ret;
	uint8_t ver, type, flags, plen, mlen;
	uint32_t a[4];
	uint32_t asn;
	uint16_t session;
	uint32_t sn, refresh, retry, expire;
};
struct script {
	struct sentry e[STORE_K];
	unsigned int pos;
};
static struct script g_sc;

static struct rtr_socket g_sock;
static struct rtr_socket g_pre;
static struct tr_socket g_tr;
static struct pfx_table g_ptab;
static struct spki_table g_ktab;
static struct rtr_socket g_other; /* another cache's socket */

/* ------------------------------------------------------------------ allocator: may fail at every call */
void *lrtr_malloc(size_t size)
{
	void *p = VND_BOOL() ? NULL : malloc(size);

	if (!p)
		g_gt.injected_error = true;
	return p;
}
void *lrtr_realloc(void *ptr, size_t size)
{
	void *p = VND_BOOL() ? NULL : realloc(ptr, size);

	if (!p)
		g_gt.injected_error = true;
	return p;
}
void lrtr_free(void *ptr)
{
	free(ptr);
}

/* ------------------------------------------------------------------ transport: delivers the script */
#define RAWMAX 123
struct rawentry {
	unsigned char b[RAWMAX];
	int ret_hdr; /* outcome of the header read: 8 or a transport error */
	int ret_pay; /* outcome of the payload read: its length or a transport error */
};
static struct rawentry g_raw[STORE_K];

int tr_recv_all(const struct tr_socket *socket, const void *pdu, const size_t len, const time_t timeout)
{
	unsigned char *dst = (unsigned char *)pdu;

	__CPROVER_assert(len <= 3248u && __CPROVER_w_ok(pdu, len), "precondition of tr_recv_all: destination writable for len bytes (contract)");
	/* every PDU starts with a header read into the start of the receive buffer; its payload goes behind it.
	 * The script position is the number of header reads, so it is the same on every path. */
	if (__CPROVER_POINTER_OFFSET(pdu) == 0) {
		__CPROVER_assert(g_sc.pos < STORE_K, "the client does not read beyond the end of the response");
		__CPROVER_assert(len == 8, "header read");
		const unsigned int k = g_sc.pos < STORE_K ? g_sc.pos : STORE_K - 1;

		g_sc.pos++;
		if (g_raw[k].ret_hdr != 8)
			return g_raw[k].ret_hdr;
		for (unsigned int i = 0; i < 8; i++)
			dst[i] = g_raw[k].b[i];
		return 8;
	}
	__CPROVER_assert(__CPROVER_POINTER_OFFSET(pdu) == 8 && g_sc.pos >= 1, "payload read follows a header read");
	const unsigned int k = (g_sc.pos >= 1 && g_sc.pos <= STORE_K) ? g_sc.pos - 1 : 0;

	/* the script holds at most RAWMAX bytes per PDU */
	for (unsigned int i = 0; i < RAWMAX - 8; i++)
		if (i < len)
			dst[i] = g_raw[k].b[8 + i];
	if (g_raw[k].ret_pay < 0)
		return g_raw[k].ret_pay;
	return (int)len;
}
/* a PDU consisting of a bare header is complete after the header read */
static void script_sync_phase(void)
{
}

#ifdef STORE_RECV_CONTRACT
/* Variant for the quick tier: rtr_receive_pdu is replaced by its contract (contracts/packets.h, proved by
 * units/receive.c) in a client reading that additionally ties the delivered PDU to the script entry. */
#define E(k) (g_sc.e[(k) < STORE_K ? (k) : 0])
#define SCRIPT_MATCH(r, b, k)                                                                          \
	((r) == E(k).ret &&                                                                            \
	 ((r) != 0 ? 1                                                                                 \
		   : (HP(b)->type == E(k).type && HP(b)->ver == E(k).ver &&                            \
		      (E(k).type == SPEC_PDU_EOD                                                       \
			       ? (((const struct pdu_end_of_data_v0 *)(b))->session_id == E(k).session && ((const struct pdu_end_of_data_v0 *)(b))->sn == E(k).sn && \
				  (E(k).ver == 1 ? (((const struct pdu_end_of_data_v1 *)(b))->refresh_interval == E(k).refresh && \
						    ((const struct pdu_end_of_data_v1 *)(b))->retry_interval == E(k).retry && \
						    ((const struct pdu_end_of_data_v1 *)(b))->expire_interval == E(k).expire) \
						 : 1))                                                 \
			       : (E(k).type == SPEC_PDU_ROUTER_KEY ? ((const struct pdu_router_key *)(b))->flags == E(k).flags : 1)))))
static int rtr_receive_pdu__store(struct rtr_socket *rtr_socket, void *pdu, const size_t pdu_len, const time_t timeout)
__CPROVER_requires(__CPROVER_rw_ok(rtr_socket, sizeof(*rtr_socket)) && pdu_len >= 3248 && __CPROVER_rw_ok(pdu, 3248))
__CPROVER_requires(rtr_socket->version <= 1 && __CPROVER_r_ok(rtr_socket->tr_socket, sizeof(struct tr_socket)))
__CPROVER_requires(g_sc.pos < STORE_K)
__CPROVER_ensures(RECV_POST(__CPROVER_return_value, rtr_socket, pdu, __CPROVER_old(rtr_socket->version),
			    __CPROVER_old(rtr_socket->has_received_pdus), __CPROVER_old(rtr_socket->state)))
__CPROVER_ensures(SCRIPT_MATCH(__CPROVER_return_value, pdu, __CPROVER_old(g_sc.pos)) && g_sc.pos == __CPROVER_old(g_sc.pos) + 1)
__CPROVER_assigns(__CPROVER_object_upto(pdu, 3248), rtr_socket->version, rtr_socket->has_received_pdus, rtr_socket->state,
		  __CPROVER_object_whole(&g_env), g_sc.pos);
#endif

#ifdef STORE_CHOICE
/* Variant "which table receives the records" (C06): the buffering and the apply / undo functions are replaced by
 * their contracts in CLIENT reading (their bodies are verified in units/apply.c): buffering appends one PDU or
 * fails without change; apply / undo return any of their result codes and record which table they were handed.
 * What remains of rtr_sync_receive_and_store_pdus is the REAL control flow: receive loop, End-of-Data handling,
 * shadow-table set-up, the choice of the update tables, the apply loops with their roll-back, swap and clean-up. */
struct choice_ghost {
	bool live_pfx, live_key; /* an apply / undo call was handed the socket's LIVE table */
	bool other_pfx, other_key; /* ... a table that is not the live one */
	unsigned int applies;
};
static struct choice_ghost g_ch;

static int rtr_store_prefix_pdu__choice(struct rtr_socket *rtr_socket, const void *pdu, const unsigned int pdu_size, void **ary, unsigned int *ind, unsigned int *size)
__CPROVER_requires(__CPROVER_rw_ok(ary, sizeof(*ary)) && __CPROVER_rw_ok(ind, sizeof(*ind)) && __CPROVER_rw_ok(size, sizeof(*size)) && *ind < 2)
__CPROVER_requires(pdu_size == sizeof(struct pdu_ipv4) || pdu_size == sizeof(struct pdu_ipv6))
__CPROVER_ensures(__CPROVER_return_value == RTR_SUCCESS || __CPROVER_return_value == RTR_ERROR)
__CPROVER_ensures(__CPROVER_return_value == RTR_SUCCESS
			  ? (*ind == __CPROVER_old(*ind) + 1 && __CPROVER_is_fresh(*ary, 2 * sizeof(struct pdu_ipv6)))
			  : (*ind == __CPROVER_old(*ind) && *ary == __CPROVER_old(*ary) && *size == __CPROVER_old(*size)))
__CPROVER_assigns(*ary, *ind, *size);

static int rtr_store_router_key_pdu__choice(struct rtr_socket *rtr_socket, const void *pdu, const unsigned int pdu_size, struct pdu_router_key **ary, unsigned int *ind, unsigned int *size)
__CPROVER_requires(__CPROVER_rw_ok(ary, sizeof(*ary)) && __CPROVER_rw_ok(ind, sizeof(*ind)) && __CPROVER_rw_ok(size, sizeof(*size)) && *ind < 2)
__CPROVER_ensures(__CPROVER_return_value == RTR_SUCCESS || __CPROVER_return_value == RTR_ERROR)
__CPROVER_ensures(__CPROVER_return_value == RTR_SUCCESS ? (*ind == __CPROVER_old(*ind) + 1 && __CPROVER_is_fresh(*ary, 2 * sizeof(struct pdu_router_key)))
							: (*ind == __CPROVER_old(*ind) && *ary == __CPROVER_old(*ary) && *size == __CPROVER_old(*size)))
__CPROVER_assigns(*ary, *ind, *size);

#define CHOICE_PFX(t)                                                                                                   \
	(g_ch.live_pfx == (__CPROVER_old(g_ch.live_pfx) || (t) == &g_ptab) && g_ch.other_pfx == (__CPROVER_old(g_ch.other_pfx) || (t) != &g_ptab) && \
	 g_ch.applies == __CPROVER_old(g_ch.applies) + 1)
#define CHOICE_KEY(t)                                                                                                   \
	(g_ch.live_key == (__CPROVER_old(g_ch.live_key) || (t) == &g_ktab) && g_ch.other_key == (__CPROVER_old(g_ch.other_key) || (t) != &g_ktab) && \
	 g_ch.applies == __CPROVER_old(g_ch.applies) + 1)
static int rtr_update_pfx_table__choice(struct rtr_socket *rtr_socket, struct pfx_table *pfx_table, const void *pdu)
__CPROVER_requires(g_ch.applies < 1000)
__CPROVER_ensures((__CPROVER_return_value == PFX_SUCCESS || __CPROVER_return_value == PFX_ERROR) && CHOICE_PFX(pfx_table))
__CPROVER_assigns(g_ch.live_pfx, g_ch.other_pfx, g_ch.applies);
static int rtr_undo_update_pfx_table__choice(struct rtr_socket *rtr_socket, struct pfx_table *pfx_table, void *pdu)
__CPROVER_requires(g_ch.applies < 1000)
__CPROVER_ensures((__CPROVER_return_value == PFX_SUCCESS || __CPROVER_return_value == PFX_ERROR || __CPROVER_return_value == PFX_DUPLICATE_RECORD ||
		   __CPROVER_return_value == PFX_RECORD_NOT_FOUND) && CHOICE_PFX(pfx_table))
__CPROVER_assigns(g_ch.live_pfx, g_ch.other_pfx, g_ch.applies);
static int rtr_update_spki_table__choice(struct rtr_socket *rtr_socket, struct spki_table *spki_table, const void *pdu)
__CPROVER_requires(g_ch.applies < 1000)
__CPROVER_ensures((__CPROVER_return_value == SPKI_SUCCESS || __CPROVER_return_value == SPKI_ERROR) && CHOICE_KEY(spki_table))
__CPROVER_assigns(g_ch.live_key, g_ch.other_key, g_ch.applies);
static int rtr_undo_update_spki_table__choice(struct rtr_socket *rtr_socket, struct spki_table *spki_table, void *pdu)
__CPROVER_requires(g_ch.applies < 1000)
__CPROVER_ensures((__CPROVER_return_value == SPKI_SUCCESS || __CPROVER_return_value == SPKI_ERROR || __CPROVER_return_value == SPKI_DUPLICATE_RECORD ||
		   __CPROVER_return_value == SPKI_RECORD_NOT_FOUND) && CHOICE_KEY(spki_table))
__CPROVER_assigns(g_ch.live_key, g_ch.other_key, g_ch.applies);
#endif

/* record a prefix PDU of the script describes (independent of rtr_prefix_pdu_2_pfx_record) */
static struct pfx_record rec_of(const struct sentry *e)
{
	struct pfx_record r;

	if (e->type == SPEC_PDU_IPV4) {
		struct lrtr_ip_addr a = {.ver = LRTR_IPV4, .u.addr4.addr = e->a[0]};

		r.prefix = a;
	} else {
		struct lrtr_ip_addr a = {.ver = LRTR_IPV6, .u.addr6.addr = {e->a[0], e->a[1], e->a[2], e->a[3]}};

		r.prefix = a;
	}
	r.asn = e->asn;
	r.min_len = e->plen;
	r.max_len = e->mlen;
	r.socket = &g_sock;
	return r;
}

void h_store(void)
{
	g_tape_n = 0;
	/* ---- socket */
	g_sock.tr_socket = &g_tr;
	g_sock.pfx_table = &g_ptab;
	g_sock.spki_table = &g_ktab;
	g_sock.version = VND_U8() & 1;
	g_sock.has_received_pdus = true; /* the Cache Response has been received */
	g_sock.state = RTR_SYNC;
	g_sock.connection_state_fp = NULL;
	g_sock.session_id = VND_U16();
	g_sock.request_session_id = VND_BOOL();
	g_sock.serial_number = VND_U32();
	g_sock.last_update = (time_t)VND_U32();
	g_sock.is_resetting = VND_BOOL();
	g_sock.refresh_interval = VND_U32();
	g_sock.expire_interval = VND_U32();
	g_sock.retry_interval = VND_U32();
	g_sock.iv_mode = (enum rtr_interval_mode)(VND_U8() & 3);
	g_ptab.update_fp = NULL;
	g_ktab.update_fp = NULL;
	g_pre = g_sock;
	struct env_log z = {0};
	struct sync_ghost zg = {0};
	struct gtables zt = {0};

	g_env = z;
	g_gh = zg;
	g_gt = zt;
	g_gt.pmain = &g_ptab;
	g_gt.kmain = &g_ktab;
	g_gt.reload = g_sock.is_resetting;
	/* ---- script */
	unsigned int nkeys = 0;
	const unsigned int term = STORE_N;

	for (unsigned int k = 0; k < STORE_K; k++) {
		struct sentry e;

		e.ret = VND_INT();
		ASSUME(RECV_RET_OK(e.ret));
		e.ver = g_sock.version;
		e.type = VND_U8();
		e.flags = VND_U8();
		e.plen = VND_U8();
		e.mlen = VND_U8();
		e.a[0] = VND_U32();
		e.a[1] = VND_U32();
		e.a[2] = VND_U32();
		e.a[3] = VND_U32();
		e.asn = VND_U32();
		e.session = VND_U16();
		e.sn = VND_U32();
		e.refresh = VND_U32();
		e.retry = VND_U32();
		e.expire = VND_U32();
		if (k < STORE_N) {
			e.ret = 0;
			e.type = g_shape[k];
#ifdef STORE_CHOICE
			/* any payload PDU type at this position */
			e.type = VND_BOOL() ? SPEC_PDU_IPV4 : VND_BOOL() ? SPEC_PDU_IPV6 : SPEC_PDU_ROUTER_KEY;
#endif
			if (e.type == SPEC_PDU_ROUTER_KEY)
				nkeys++;
		} else {
			/* the terminal event: anything but a payload PDU or a Serial Notify */
			ASSUME(e.ret == 0 || e.ret == -1 || e.ret == -2 || e.ret == -3 || e.ret == -4);
		}
		g_sc.e[k] = e;
		/* the bytes on the wire */
		struct rawentry re;

		for (unsigned int i = 0; i < RAWMAX; i++)
			re.b[i] = VND_U8();
		re.ret_hdr = 8;
		re.ret_pay = 0;
		if (k < STORE_N) {
			const unsigned int plen = e.type == SPEC_PDU_IPV4 ? 20 : e.type == SPEC_PDU_IPV6 ? 32 : e.type == SPEC_PDU_ROUTER_KEY ? 123 : 12;

			re.b[0] = e.ver;
			re.b[1] = e.type;
			re.b[4] = 0;
			re.b[5] = 0;
			re.b[6] = 0;
			re.b[7] = (unsigned char)plen;
			if (e.type == SPEC_PDU_IPV4 || e.type == SPEC_PDU_IPV6) {
				const unsigned int nw = e.type == SPEC_PDU_IPV4 ? 1 : 4;

				re.b[8] = e.flags;
				re.b[9] = e.plen;
				re.b[10] = e.mlen;
				for (unsigned int w = 0; w < 4; w++)
					if (w < nw) {
						re.b[12 + 4 * w] = (unsigned char)(e.a[w] >> 24);
						re.b[13 + 4 * w] = (unsigned char)(e.a[w] >> 16);
						re.b[14 + 4 * w] = (unsigned char)(e.a[w] >> 8);
						re.b[15 + 4 * w] = (unsigned char)e.a[w];
					}
				re.b[12 + 4 * nw] = (unsigned char)(e.asn >> 24);
				re.b[13 + 4 * nw] = (unsigned char)(e.asn >> 16);
				re.b[14 + 4 * nw] = (unsigned char)(e.asn >> 8);
				re.b[15 + 4 * nw] = (unsigned char)e.asn;
			} else if (e.type == SPEC_PDU_ROUTER_KEY) {
				re.b[2] = e.flags;
				re.b[28] = (unsigned char)(e.asn >> 24);
				re.b[29] = (unsigned char)(e.asn >> 16);
				re.b[30] = (unsigned char)(e.asn >> 8);
				re.b[31] = (unsigned char)e.asn;
			}
		} else {
			/* terminal event: any transport outcome, or any bytes that are not a payload PDU / Serial Notify */
			re.ret_hdr = e.ret == 0 ? 8 : e.ret;
			re.ret_pay = VND_BOOL() ? 0 : -1 - (int)(VND_U8() & 3);
			ASSUME(!(re.b[1] == SPEC_PDU_IPV4 || re.b[1] == SPEC_PDU_IPV6 || re.b[1] == SPEC_PDU_ROUTER_KEY || re.b[1] == SPEC_PDU_SERIAL_NOTIFY));
			ASSUME(RAW_LEN(re.b) <= RAWMAX); /* longer Error Reports: covered by units/receive.c and error_pdu */
#ifdef STORE_TERM_EOD
			/* quick tier: the terminal event is an End of Data (any version byte, session, length, intervals)
			 * or a transport outcome; the other terminal PDUs are left to the thorough tier */
			ASSUME(re.ret_hdr != 8 || re.b[1] == SPEC_PDU_EOD);
#endif
#ifndef STORE_RECV_CONTRACT
			g_sc.e[k].type = re.b[1];
			g_sc.e[k].ver = re.b[0];
			g_sc.e[k].session = (uint16_t)RAW_U16(re.b, 2);
			g_sc.e[k].sn = RAW_U32(re.b, 8);
			g_sc.e[k].refresh = RAW_U32(re.b, 12);
			g_sc.e[k].retry = RAW_U32(re.b, 16);
			g_sc.e[k].expire = RAW_U32(re.b, 20);
#else
			/* the contract delivers only PDUs of the negotiated version (Error Reports excepted) */
			ASSUME(e.ret != 0 || !(e.type == SPEC_PDU_IPV4 || e.type == SPEC_PDU_IPV6 || e.type == SPEC_PDU_ROUTER_KEY || e.type == SPEC_PDU_SERIAL_NOTIFY));
#endif
		}
		g_raw[k] = re;
	}
	g_sc.pos = 0;
	/* ---- tables before the response: records of this cache and of another cache, mentioned or not */
	struct pfx_record extra_this = {.asn = VND_U32(), .prefix = {.ver = LRTR_IPV4, .u.addr4.addr = VND_U32()}, .min_len = VND_U8(), .max_len = VND_U8(), .socket = &g_sock};
	struct pfx_record extra_other = extra_this;

	extra_other.socket = &g_other;
	int x_this = gt_canon(&extra_this), x_other = gt_canon(&extra_other);

	for (unsigned int k = 0; k < STORE_K; k++)
		if (k <= term && g_sc.e[k].ret == 0 && (g_sc.e[k].type == SPEC_PDU_IPV4 || g_sc.e[k].type == SPEC_PDU_IPV6)) {
			struct pfx_record r = rec_of(&g_sc.e[k]);

			gt_canon(&r);
		}
	bool m0[GT_NU], exp[GT_NU];

	for (unsigned int j = 0; j < GT_NU; j++) {
		g_gt.p[0][j] = j < g_gt.nu ? VND_BOOL() : false;
		m0[j] = g_gt.p[0][j];
		/* reload: the new set starts from the other caches' records only */
		exp[j] = (g_sock.is_resetting && j < g_gt.nu && g_gt.u[j].socket == &g_sock) ? false : m0[j];
	}
	struct spki_record kx_this, kx_other;

	kx_this.asn = VND_U32();
	for (unsigned int i = 0; i < SKI_SIZE; i++)
		kx_this.ski[i] = (uint8_t)i;
	for (unsigned int i = 0; i < SPKI_SIZE; i++)
		kx_this.spki[i] = (uint8_t)(i + 1);
	kx_this.socket = &g_sock;
	kx_other = kx_this;
	kx_other.socket = &g_other;
	gt_kcanon(&kx_this);
	gt_kcanon(&kx_other);
	bool k0[GT_NK];

	for (unsigned int j = 0; j < GT_NK; j++) {
		g_gt.k[0][j] = j < g_gt.nk ? VND_BOOL() : false;
		k0[j] = g_gt.k[0][j];
	}
	/* ---- what the response means (property C03), computed from the script alone */
	bool valid = true; /* every payload PDU applies cleanly, in order */

	for (unsigned int k = 0; k < STORE_K; k++)
		if (k < term && g_sc.e[k].ret == 0 && (g_sc.e[k].type == SPEC_PDU_IPV4 || g_sc.e[k].type == SPEC_PDU_IPV6)) {
			struct pfx_record r = rec_of(&g_sc.e[k]);
			int j = gt_canon(&r);

			if (j < 0 || !valid) {
				valid = false;
			} else if (g_sc.e[k].flags == 1) {
				if (exp[j])
					valid = false;
				else
					exp[j] = true;
			} else if (g_sc.e[k].flags == 0) {
				if (!exp[j])
					valid = false;
				else
					exp[j] = false;
			} else {
				valid = false;
			}
		}
	const struct sentry *t = &g_sc.e[term < STORE_K ? term : 0];
	/* the terminal event is an End of Data the receive path accepts: read completely, right version, right size */
#ifdef STORE_RECV_CONTRACT
	/* contract variant: a delivered PDU is well-formed and of the negotiated version by RECV_POST */
	const bool eod = t->ret == 0 && t->type == SPEC_PDU_EOD;
#else
	const struct rawentry *tr = &g_raw[term];
	const bool eod = t->ret == 0 && tr->ret_pay >= 0 && t->type == SPEC_PDU_EOD && t->ver == g_pre.version && SPEC_PDU_LEN_OK(tr->b, RAW_LEN(tr->b));
#endif
	const bool eod_ok = eod && t->session == g_pre.session_id;
	bool key_flags_ok = true;

	for (unsigned int k = 0; k < STORE_K; k++)
		if (k < term && g_sc.e[k].ret == 0 && g_sc.e[k].type == SPEC_PDU_ROUTER_KEY && g_sc.e[k].flags > 1)
			key_flags_ok = false;

#ifdef STORE_CHOICE
	struct choice_ghost zc = {0};

	g_ch = zc;
#endif
	int r = rtr_sync_receive_and_store_pdus(&g_sock);

#ifdef STORE_CHOICE
	/* ---- C06: which table receives the records */
	CHECK(!g_gt.bad_table, "table operations address the socket's live tables or the shadow tables only");
	if (g_pre.is_resetting) {
		CHECK(!g_ch.live_pfx && !g_ch.live_key, "C06 during a reload every prefix and every router key is applied to (and rolled back from) the shadow tables, never the live ones");
		CHECK(!g_gt.live_mutated_before_swap, "C06 during a reload no record is added to or removed from the live tables before the swap");
		CHECK(r != 0 || (g_gt.pfx_swaps == 1 && g_gt.spki_swaps == 1), "C06 a successful reload swaps each table exactly once");
		CHECK(g_gt.shadow_frees == g_gt.shadow_inits && g_gt.kshadow_frees == g_gt.kshadow_inits, "C18 every shadow table that was set up is released");
	} else {
		CHECK(!g_ch.other_pfx && !g_ch.other_key, "C06 outside a reload the records are applied to the live tables");
		CHECK(g_gt.pfx_swaps == 0 && g_gt.spki_swaps == 0 && g_gt.shadow_inits == 0, "C06 no shadow table outside a reload");
	}
	if (r == 0 && g_pre.is_resetting && g_ch.applies == 1)
		CANARY("successful reload with one record reachable");
	if (r == 0 && !g_pre.is_resetting && g_ch.applies == 1)
		CANARY("successful delta with one record reachable");
	if (r == -1 && g_ch.applies == 1)
		CANARY("failed apply reachable");
#else

	/* ---- unit sanity */
	CHECK(!g_gt.bad_table, "table operations address the socket's live tables or the shadow tables only");
	if (g_gt.overflow)
		return; /* universe too small for this script: nothing is claimed (cannot happen by construction) */
	/* ---- C03 */
	bool same = true, gone = true, others_same = true, as_expected = true;

	for (unsigned int j = 0; j < GT_NU; j++)
		if (j < g_gt.nu) {
			same = same && g_gt.p[0][j] == m0[j];
			as_expected = as_expected && g_gt.p[0][j] == exp[j];
			if (g_gt.u[j].socket == &g_sock)
				gone = gone && !g_gt.p[0][j];
			else
				others_same = others_same && g_gt.p[0][j] == m0[j];
		}
	bool ksame = true, kgone = true, kothers_same = true;

	for (unsigned int j = 0; j < GT_NK; j++)
		if (j < g_gt.nk) {
			ksame = ksame && g_gt.k[0][j] == (j < 2 ? k0[j] : false);
			if (g_gt.uk[j].socket == &g_sock)
				kgone = kgone && !g_gt.k[0][j];
			else
				kothers_same = kothers_same && g_gt.k[0][j] == (j < 2 ? k0[j] : false);
		}
	CHECK(r == 0 || r == -1, "C03 the payload phase ends with success or error");
	CHECK(others_same && kothers_same, "C03 records learned from other caches are never altered");
	if (r == 0) {
		CHECK(eod_ok && valid && key_flags_ok, "C03 success only for a response that applies cleanly and ends with End of Data of the established session");
		CHECK(as_expected, "C03 success: the cache's prefix records are the previous ones plus announcements minus withdrawals (reload: exactly the announced set)");
		CHECK(g_sock.serial_number == t->sn, "C03 success: the stored serial is the one in End of Data");
		CHECK(g_sock.session_id == g_pre.session_id && g_sock.request_session_id == g_pre.request_session_id, "C05 success leaves session id and request flag to rtr_sync");
	} else {
		CHECK((same && ksame && g_sock.serial_number == g_pre.serial_number && g_sock.session_id == g_pre.session_id &&
		       g_sock.request_session_id == g_pre.request_session_id) ||
			      (gone && kgone && g_sock.request_session_id),
		      "C03 failure: the cache's records are exactly those from before and the next query is unchanged, or all of them are gone and the next query is a Reset Query");
		CHECK(g_sock.serial_number == g_pre.serial_number && g_sock.session_id == g_pre.session_id, "C05 a failed payload phase keeps serial and session id");
	}
	if (eod && !eod_ok)
		CHECK(r == -1 && same && ksame, "C05 End of Data with a foreign session id fails the synchronisation and none of the payload is applied");
	if (eod_ok && valid && key_flags_ok && !g_gt.injected_error && g_pre.state != RTR_SHUTDOWN)
		CHECK(r == 0, "C03 a clean response is applied (no spurious failure)");
	/* ---- C06: reload builds aside and swaps */
	if (g_pre.is_resetting) {
		CHECK(!g_gt.live_mutated_before_swap, "C06 during a reload no record is added to or removed from the live tables before the swap");
		CHECK(r != 0 || (g_gt.pfx_swaps == 1 && g_gt.spki_swaps == 1), "C06 a successful reload swaps each table exactly once");
		CHECK(g_gt.shadow_frees == g_gt.shadow_inits && g_gt.kshadow_frees == g_gt.kshadow_inits, "C18 every shadow table that was set up is released");
		CHECK(!g_sock.is_resetting, "C07 reload mode ends with the payload phase");
	} else {
		CHECK(g_gt.pfx_swaps == 0 && g_gt.spki_swaps == 0 && g_gt.shadow_inits == 0, "C06 no shadow table outside a reload");
	}
	/* ---- C17: intervals */
	if (eod_ok && t->ver == 1 && g_pre.iv_mode != RTR_INTERVAL_MODE_IGNORE_ANY) {
		CHECK(g_sock.expire_interval == SPEC_INTERVAL(g_pre.iv_mode, g_pre.expire_interval, t->expire, SPEC_EXPIRE_MIN, SPEC_EXPIRE_MAX) &&
			      g_sock.refresh_interval == SPEC_INTERVAL(g_pre.iv_mode, g_pre.refresh_interval, t->refresh, SPEC_REFRESH_MIN, SPEC_REFRESH_MAX) &&
			      g_sock.retry_interval == SPEC_INTERVAL(g_pre.iv_mode, g_pre.retry_interval, t->retry, SPEC_RETRY_MIN, SPEC_RETRY_MAX),
		      "C17 after End of Data the three intervals are what the interval mode prescribes");
	} else {
		CHECK(g_sock.expire_interval == g_pre.expire_interval && g_sock.refresh_interval == g_pre.refresh_interval && g_sock.retry_interval == g_pre.retry_interval,
		      "C17 version-0 exchanges, mode ignore-any and responses without accepted End of Data never change the intervals");
	}
	/* ---- frame contract used by units/sync.c (there: assumed; here: checked on the body, bounded) */
	g_gh.store_ok = (r == 0);
	g_gh.eod_sn = t->sn;
#define OLDG(e) (*(__typeof__(e) *)((char *)&g_pre + ((char *)&(e) - (char *)&g_sock)))
	CHECK(STORE_FRAME_POST(r, &g_sock, OLDG), "C05/C13 frame contract of rtr_sync_receive_and_store_pdus as assumed by units/sync.c");

	if (r == 0 && g_pre.is_resetting)
		CANARY("successful reload reachable");
#ifndef STORE_EMPTY
	if (r == 0 && !g_pre.is_resetting && term >= 1)
		CANARY("successful delta reachable");
	if (r == -1 && same && term >= 1 && eod_ok && !valid)
		CANARY("rolled back / refused delta reachable");
#endif
	if (r == -1 && t->ret == -2)
		CANARY("time-out reachable");
	if (eod && !eod_ok)
		CANARY("foreign session End of Data reachable");
#ifndef STORE_EMPTY
	if (r == 0 && nkeys == 1)
		CANARY("router key applied reachable");
#endif
#endif /* STORE_CHOICE */
}
