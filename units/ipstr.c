/*
 * C19 (partial) -- IPv6 text conversion (ipv6.c).
 *   h_parse6    lrtr_ipv6_str_to_addr on every NUL-terminated string of at most STRMAX characters without
 *               '.' (the embedded-IPv4 tail goes through sscanf, which is not modelled): no access outside
 *               the string or the word array, and DETERMINISM as a 2-safety check -- two runs on the same
 *               text (each with its own arbitrary stack content) give the same return code and, on success,
 *               the same address.  BOUNDED in the string length.
 *   h_format6   lrtr_ipv6_addr_to_str for ALL 2^128 addresses: refuses buffers shorter than
 *               INET6_ADDRSTRLEN and never writes beyond INET6_ADDRSTRLEN bytes (sprintf replaced by its
 *               length contract: "%x" of a 16-bit word writes 1..4 characters, the embedded-IPv4 form at most
 *               22, each NUL-terminated).  Complete given that ASSUMED libc contract.
 * Not decided by this technique (DESIGN.md, C19): agreement with the platform's inet_pton, the round trip
 * through text, and the IPv4 pair (pure sscanf / snprintf).
 */
#include "verif.h"

#include <stdio.h>
#ifndef VERIF_NATIVE
int verif_sprintf(char *b, const char *fmt);
#define sprintf(b, fmt, ...) verif_sprintf((b), (fmt))
#endif
#include "rtrlib/lib/ipv6.c" /* the real translation unit */

#ifndef H_ENTRY
#define H_ENTRY h_parse6
#endif
VERIF_MAIN(H_ENTRY)

#ifndef STRMAX
#define STRMAX 12
#endif

#ifndef VERIF_NATIVE
static char *g_out_base;
int verif_sprintf(char *b, const char *fmt)
{
	/* libc sprintf, ASSUMED: "%x" of a value < 0x10000 -> 1..4 characters; "::%s%d.%d.%d.%d" with "" or
	 * "ffff:" and four values < 256 -> at most 2 + 5 + 15 characters; NUL-terminated */
	const unsigned int max = (fmt[0] == '%' && fmt[1] == 'x') ? 4 : 22;
	unsigned int n = VND_U8();

	ASSUME(n >= 1 && n <= max);
	__CPROVER_assert(__CPROVER_w_ok(b, n + 1), "C19 formatted output stays inside the caller's buffer");
	for (unsigned int i = 0; i < 22; i++)
		if (i < n)
			b[i] = 'x';
	b[n] = 0;
	return (int)n;
}
int sscanf(const char *str, const char *format, ...)
{
	__CPROVER_assert(0, "unit: strings with an embedded IPv4 tail are excluded");
	return 0;
}
uint32_t lrtr_get_bits(const uint32_t val, const uint8_t from, const uint8_t number)
{
	return 0;
}
uint32_t lrtr_convert_long(const enum target_byte_order tbo, const uint32_t value)
{
	return value;
}
#endif

void h_parse6(void)
{
	g_tape_n = 0;
	char s[STRMAX + 1];
	unsigned int len = VND_U8();

	ASSUME(len <= STRMAX);
	for (unsigned int i = 0; i < STRMAX; i++) {
		s[i] = (char)VND_U8();
		if (i < len)
			ASSUME(s[i] != 0 && s[i] != '.');
	}
	s[len] = 0;
	struct lrtr_ipv6_addr a1, a2;
	int r1 = lrtr_ipv6_str_to_addr(s, &a1);
	int r2 = lrtr_ipv6_str_to_addr(s, &a2);

	CHECK(r1 == r2, "C19 whether a text is accepted depends only on the text");
	if (r1 == 0 && r2 == 0)
		CHECK(a1.addr[0] == a2.addr[0] && a1.addr[1] == a2.addr[1] && a1.addr[2] == a2.addr[2] && a1.addr[3] == a2.addr[3],
		      "C19 the result of parsing depends only on the text given");
	CHECK(r1 == 0 || r1 == -1, "C19 parser returns 0 or -1");
	if (r1 == 0 && len == 2)
		CANARY("'::' accepted reachable");
	if (r1 == 0 && len + 1 >= STRMAX)
		CANARY("long text accepted reachable");
	if (r1 == -1)
		CANARY("rejection reachable");
}

void h_format6(void)
{
	g_tape_n = 0;
	struct lrtr_ipv6_addr a = {.addr = {VND_U32(), VND_U32(), VND_U32(), VND_U32()}};
	char buf[INET6_ADDRSTRLEN]; /* exactly the documented minimum: any write beyond it is an obligation failure */
	unsigned int len = VND_U8();
	int r = lrtr_ipv6_addr_to_str(&a, buf, len);

	if (len < INET6_ADDRSTRLEN)
		CHECK(r == -1, "C19 a buffer shorter than INET6_ADDRSTRLEN is refused");
	else
		CHECK(r == 0, "C19 formatting succeeds into a buffer of INET6_ADDRSTRLEN bytes");
	if (r == 0)
		CANARY("formatted reachable");
	if (r == -1)
		CANARY("refused reachable");
}
