/* construction of symbolic addresses: always assign a whole struct lrtr_ip_addr built from a
 * designated initialiser (member-wise writes to the union inside arrays are a known CBMC trap). */
#ifndef UNITS_MK_ADDR_H
#define UNITS_MK_ADDR_H
static inline struct lrtr_ip_addr mk_addr4(void)
{
	struct lrtr_ip_addr a = {.ver = LRTR_IPV4, .u.addr4.addr = VND_U32()};
	return a;
}
static inline struct lrtr_ip_addr mk_addr6(void)
{
	struct lrtr_ip_addr a = {.ver = LRTR_IPV6, .u.addr6.addr = {VND_U32(), VND_U32(), VND_U32(), VND_U32()}};
	return a;
}
static inline struct lrtr_ip_addr mk_addr_any(void)
{
	if (VND_BOOL())
		return mk_addr6();
	return mk_addr4();
}
#endif
