/*
 * C10 / C16 / C18 -- the REAL router-key table (ht-spkitable.c) on the REAL tommyds linear hash table and
 * list (third-party/tommyds/tommyhashlin.c, tommylist.c) against the mathematical set keyed by
 * (AS, SKI, key, source), over operation histories: KH_N symbolic adds from the empty table, one symbolic
 * operation (add / remove / remove-by-source / nothing), then both lookups for a symbolic (AS, SKI).
 * Checked: return codes = set semantics, lookups return exactly the stored keys with that AS and SKI / that
 * SKI, callbacks mirror every addition and removal (also by source), the lock protocol, allocation failure
 * is contained.
 * BOUNDED stand-in: histories of KH_N + 1 operations (quick 2 + 1, thorough 3 + 1); AS numbers are drawn
 * from {a, b} (symbolic, may collide in the hash or be equal), SKIs and keys from two symbolic byte
 * patterns each, two sources.  The table stays far below the first resize step (64 buckets): the grow /
 * shrink steps of tommy_hashlin are NOT covered here.
 */
#include "verif.h"

#include "rtrlib/spki/hashtable/ht-spkitable.c" /* the real translation unit */
#include "third-party/tommyds/tommyhashlin.c"
#include "third-party/tommyds/tommylist.c"
#include "third-party/tommyds/tommyhash.c"

VERIF_MAIN(h_spki_hist)

#ifndef KH_N
#define KH_N 2
#endif
#define NKEY (KH_N + 1)

static struct spki_table g_tab;
static struct rtr_socket *g_s1 = (struct rtr_socket *)0x1000, *g_s2 = (struct rtr_socket *)0x2000;
static bool g_alloc_failed;

void *lrtr_malloc(size_t size)
{
	if (VND_BOOL()) {
		g_alloc_failed = true;
		return NULL;
	}
	void *p = malloc(size);

	ASSUME(p != NULL);
	return p;
}
void *lrtr_calloc(size_t nmemb, size_t size)
{
	if (VND_BOOL()) {
		g_alloc_failed = true;
		return NULL;
	}
	void *p = calloc(nmemb, size);

	ASSUME(p != NULL);
	return p;
}
void *lrtr_realloc(void *ptr, size_t size)
{
	if (VND_BOOL()) {
		g_alloc_failed = true;
		return NULL;
	}
	void *p = realloc(ptr, size);

	ASSUME(p != NULL || size == 0);
	return p;
}
void lrtr_free(void *ptr)
{
	free(ptr);
}

/* lock: ghost word */
struct klock {
	int held;
	bool error;
};
static struct klock g_kl;
int pthread_rwlock_init(pthread_rwlock_t *l, const pthread_rwlockattr_t *a)
{
	return 0;
}
int pthread_rwlock_rdlock(pthread_rwlock_t *l)
{
	if (g_kl.held || l != &g_tab.lock)
		g_kl.error = true;
	g_kl.held = 1;
	return 0;
}
int pthread_rwlock_wrlock(pthread_rwlock_t *l)
{
	if (g_kl.held || l != &g_tab.lock)
		g_kl.error = true;
	g_kl.held = 2;
	return 0;
}
int pthread_rwlock_unlock(pthread_rwlock_t *l)
{
	if (!g_kl.held || l != &g_tab.lock)
		g_kl.error = true;
	g_kl.held = 0;
	return 0;
}

static struct spki_record g_key[NKEY];
static bool g_in[NKEY];
struct kcblog {
	unsigned int n;
	struct spki_record last;
	bool last_added;
	bool foreign;
};
static struct kcblog g_cb;
static void update_cb(struct spki_table *t, const struct spki_record r, const bool added)
{
	if (t != &g_tab)
		g_cb.foreign = true;
	g_cb.n++;
	g_cb.last = r;
	g_cb.last_added = added;
}
static bool ski_eq(const uint8_t *a, const uint8_t *b)
{
	for (unsigned int i = 0; i < SKI_SIZE; i++)
		if (a[i] != b[i])
			return false;
	return true;
}
static bool key_eq(const struct spki_record *a, const struct spki_record *b)
{
	if (a->asn != b->asn || a->socket != b->socket || !ski_eq(a->ski, b->ski))
		return false;
	for (unsigned int i = 0; i < SPKI_SIZE; i++)
		if (a->spki[i] != b->spki[i])
			return false;
	return true;
}
static unsigned int canon(unsigned int i)
{
	for (unsigned int j = 0; j < NKEY; j++)
		if (j < i && key_eq(&g_key[j], &g_key[i]))
			return j;
	return i;
}
static uint32_t g_as[2];
static uint8_t g_skib[2], g_keyb[2];
static struct spki_record mk_key(void)
{
	struct spki_record r;
	const uint8_t sb = g_skib[VND_U8() & 1], kb = g_keyb[VND_U8() & 1];

	r.asn = g_as[VND_U8() & 1];
	for (unsigned int i = 0; i < SKI_SIZE; i++)
		r.ski[i] = sb;
	for (unsigned int i = 0; i < SPKI_SIZE; i++)
		r.spki[i] = kb;
	r.socket = VND_BOOL() ? g_s1 : g_s2;
	return r;
}

static void do_add(unsigned int i)
{
	const unsigned int c = canon(i);
	const bool was = g_in[c];
	const unsigned int cb0 = g_cb.n;

	g_alloc_failed = false;
	int r = spki_table_add_entry(&g_tab, &g_key[i]);

	if (r == SPKI_ERROR) {
		CHECK(g_alloc_failed && g_cb.n == cb0, "C18 an add fails only on allocation failure, then without effect or notification");
	} else if (was) {
		CHECK(r == SPKI_DUPLICATE_RECORD && g_cb.n == cb0, "C10 a duplicate key is rejected without change or notification");
	} else {
		CHECK(r == SPKI_SUCCESS && g_cb.n == cb0 + 1 && g_cb.last_added && key_eq(&g_cb.last, &g_key[i]), "C10 a new key is added and reported once");
		g_in[c] = true;
	}
	CHECK(!g_kl.error && g_kl.held == 0, "C16 add: lock protocol");
}

void h_spki_hist(void)
{
	g_tape_n = 0;
	g_as[0] = VND_U32();
	g_as[1] = VND_U32();
	g_skib[0] = VND_U8();
	g_skib[1] = VND_U8();
	g_keyb[0] = VND_U8();
	g_keyb[1] = VND_U8();
	g_kl.held = 0;
	g_kl.error = false;
	g_alloc_failed = false;
	spki_table_init(&g_tab, update_cb);
	if (g_alloc_failed)
		return; /* tommy_hashlin_init without memory: see DESIGN.md (C18 finding candidate), not this unit */
	for (unsigned int i = 0; i < NKEY; i++) {
		g_key[i] = mk_key();
		g_in[i] = false;
	}
	g_cb.n = 0;
	g_cb.foreign = false;
	for (unsigned int i = 0; i < KH_N; i++)
		do_add(i);
	const unsigned int op = VND_U8() & 3;
	const unsigned int cb0 = g_cb.n;

	g_alloc_failed = false;
	if (op == 0) {
		do_add(KH_N);
	} else if (op == 1) {
		const unsigned int c = canon(KH_N);
		const bool was = g_in[c];
		int r = spki_table_remove_entry(&g_tab, &g_key[KH_N]);

		if (!was) {
			CHECK(r == SPKI_RECORD_NOT_FOUND && g_cb.n == cb0, "C10 removing an unknown key reports not-found without change");
		} else {
			CHECK(r == SPKI_SUCCESS && g_cb.n == cb0 + 1 && !g_cb.last_added && key_eq(&g_cb.last, &g_key[KH_N]), "C10 a stored key is removed and reported once");
			g_in[c] = false;
		}
		CHECK(!g_kl.error && g_kl.held == 0, "C16 remove: lock protocol");
	} else if (op == 2) {
		unsigned int expect = 0;
		int r = spki_table_src_remove(&g_tab, g_s1);

		CHECK(r == SPKI_SUCCESS, "C10 removal by source succeeds");
		for (unsigned int j = 0; j < NKEY; j++)
			if (g_in[j] && g_key[j].socket == g_s1) {
				g_in[j] = false;
				expect++;
			}
		CHECK(g_cb.n == cb0 + expect, "C10 update callbacks mirror every removal, including removals by source");
		CHECK(!g_kl.error && g_kl.held == 0, "C16 removal by source: lock protocol");
	}
	CHECK(!g_cb.foreign, "C10 callbacks name this table");
	/* ---- lookups */
	const uint32_t qas = g_as[VND_U8() & 1];
	uint8_t qski[SKI_SIZE];
	const uint8_t qb = g_skib[VND_U8() & 1];

	for (unsigned int i = 0; i < SKI_SIZE; i++)
		qski[i] = qb;
	struct spki_record *res = NULL;
	unsigned int nres = 77;

	g_alloc_failed = false;
	int r = spki_table_get_all(&g_tab, qas, qski, &res, &nres);
	unsigned int want = 0;

	for (unsigned int j = 0; j < NKEY; j++)
		if (g_in[j] && canon(j) == j && g_key[j].asn == qas && ski_eq(g_key[j].ski, qski))
			want++;
	if (r == SPKI_SUCCESS) {
		CHECK(nres == want, "C10 lookup by (AS, SKI) returns exactly the stored keys with that AS and SKI");
		for (unsigned int k = 0; k < NKEY; k++)
			if (k < nres) {
				bool found = false;

				for (unsigned int j = 0; j < NKEY; j++)
					if (g_in[j] && key_eq(&res[k], &g_key[j]))
						found = true;
				CHECK(found && res[k].asn == qas && ski_eq(res[k].ski, qski), "C10 every key returned is stored and has the AS and SKI asked for");
				for (unsigned int k2 = 0; k2 < NKEY; k2++)
					if (k2 < k)
						CHECK(!key_eq(&res[k], &res[k2]), "C10 no key is returned twice");
			}
		lrtr_free(res);
	} else {
		CHECK(r == SPKI_ERROR && g_alloc_failed, "C18 a lookup fails only on allocation failure");
	}
	CHECK(!g_kl.error && g_kl.held == 0, "C16 lookup: lock protocol");
	res = NULL;
	nres = 77;
	g_alloc_failed = false;
	r = spki_table_search_by_ski(&g_tab, qski, &res, &nres);
	want = 0;
	for (unsigned int j = 0; j < NKEY; j++)
		if (g_in[j] && canon(j) == j && ski_eq(g_key[j].ski, qski))
			want++;
	if (r == SPKI_SUCCESS) {
		CHECK(nres == want, "C10 lookup by SKI alone returns exactly the stored keys with that SKI");
		lrtr_free(res);
	} else {
		CHECK(r == SPKI_ERROR && g_alloc_failed, "C18 a lookup fails only on allocation failure");
	}
	CHECK(!g_kl.error && g_kl.held == 0, "C16 lookup by SKI: lock protocol");

	if (op == 2 && g_cb.n > cb0)
		CANARY("removal by source of a stored key reachable");
	if (nres == 2)
		CANARY("two keys with one SKI reachable");
	if (op == 1 && g_cb.n == cb0 + 1)
		CANARY("successful remove reachable");
	if (g_in[0] && g_in[1] && g_key[0].asn == g_key[1].asn && canon(1) == 1)
		CANARY("two keys under one AS reachable");
	if (g_in[0] && g_in[1] && g_key[0].asn != g_key[1].asn)
		CANARY("two AS numbers reachable");
}
