/*
 * C02 -- trie_lookup_exact from the root along the key's path (spine model, units/trie_spine.h), for a path of
 * any length the address width admits (unbounded: inductive loop contract):
 *   found     : the node returned is the FIRST node on the path whose (prefix, length) equals the key
 *   not found : no node on the path up to and including the node returned equals the key; the node returned is
 *               the insertion parent: every node on the path down to it (the root excepted) is not longer than the
 *               key, and below it the path ends or continues with a longer node.  With "children are not shorter
 *               than their parent" (units/trie_shape.c) no node further down can have the key's length, and
 *               with the path lemma (units/lemma.c) the key is nowhere in the trie.
 */
#include "verif.h"

#include "rtrlib/pfx/trie/trie.c" /* the real translation unit */

#include "spec/spec.h"
#include "contracts/bits.h"
#include "units/trie_spine.h"
#include "contracts/trie.h"

VERIF_MAIN(h_lookup_exact)

#define KEY_EQ(k) (g_nodes[k].len == g_ql && spec_ip_eq(g_nodes[k].prefix, g_q))

struct trie_node *trie_lookup_exact(struct trie_node *root_node, const struct lrtr_ip_addr *prefix, const uint8_t mask_len, unsigned int *lvl,
				    bool *found)
__CPROVER_requires(root_node == &g_nodes[0] && g_n >= 1 && g_n <= SPINE_N && prefix == &g_q && mask_len == g_ql && __CPROVER_rw_ok(lvl, sizeof(*lvl)) &&
		   *lvl == 0 && __CPROVER_w_ok(found, sizeof(*found)))
__CPROVER_ensures(__CPROVER_return_value == &g_nodes[*lvl < SPINE_N ? *lvl : 0] && *lvl < g_n)
__CPROVER_assigns(*lvl, *found);

void h_lookup_exact(void)
{
	g_tape_n = 0;
	mk_spine();
	ASSUME(g_n >= 1);
	unsigned int lvl = 0;
	bool found = VND_BOOL();
	struct trie_node *r = trie_lookup_exact(&g_nodes[0], &g_q, g_ql, &lvl, &found);
	const unsigned int gk = g_k < SPINE_N ? g_k : 0;

	CHECK(lvl < g_n && r == &g_nodes[lvl], "C02 exact lookup returns a node of the key's path and its depth");
	if (found) {
		CHECK(KEY_EQ(lvl), "C02 exact lookup: found only for a node with the key's prefix and length");
		if (g_k < lvl)
			CHECK(!KEY_EQ(gk), "C02 exact lookup: it is the first such node on the path");
	} else {
		if (g_k <= lvl)
			CHECK(!KEY_EQ(gk), "C02 exact lookup: not found only if no node on the path down to the insertion parent equals the key");
		if (g_k >= 1 && g_k <= lvl)
			CHECK(g_nodes[gk].len <= g_ql, "C02 exact lookup: the insertion parent is reached through nodes not longer than the key");
		CHECK(lvl + 1 == g_n || g_nodes[lvl + 1 < SPINE_N ? lvl + 1 : 0].len > g_ql || lvl + 1 >= SPINE_N,
		      "C02 exact lookup: below the insertion parent the path ends or continues with a longer node");
	}
	if (found && lvl > 3)
		CANARY("found deep on the path reachable");
	if (!found && lvl + 1 == g_n && g_n == SPINE_N)
		CANARY("not found at the end of a full-depth path reachable");
	if (!found && lvl + 1 < g_n)
		CANARY("stop before a longer node reachable");
}
