#!/usr/bin/env python3
"""Regenerate MANIFEST.json from plan.py (claimed properties, levels, notes, not_applicable)."""
import json
import os
import plan

HERE = os.path.dirname(os.path.abspath(__file__))
ALL = ["C%02d" % i for i in range(1, 21)]
checks = []
for pid in ALL:
    if pid not in plan.PROPS:
        continue
    m = plan.PROPS[pid]
    units = [u for u in plan.UNITS if pid in u["props"]]
    bounded = [u["id"] for u in units if u["kind"].startswith("bounded")]
    checks.append({
        "property_id": pid,
        "quick_cmd": "python3 run.py %s --tier quick" % pid,
        "thorough_cmd": "python3 run.py %s --tier thorough" % pid,
        "evidence_file": "evidence/%s.json" % pid,
        "replay_cmd_template": "python3 run.py --replay {path}",
        "engine": "cbmc-contracts",
        "level_claimed": {"category": m["level"], "text": m["explanation"], "design_ref": "DESIGN.md section 4, " + pid},
        "level_note": m.get("note", "") + (" Bounded stand-ins (not counted as proved): " + ", ".join(bounded) + "." if bounded else "") +
                      " Trusted: cbmc 6.11.0 front end, DFCC instrumentation and SAT back end; " + "; ".join(m.get("trusted", [])),
        "technique": m.get("technique", "CBMC code contracts (DFCC): function contracts on the real sources, enforced per function, callees replaced by their contracts, inductive loop contracts"),
    })
na = [{"property_id": pid, "reason": plan.NOT_APPLICABLE.get(pid, "no check is built for this property yet")}
      for pid in ALL if pid not in plan.PROPS]
man = {
    "version": 1,
    "setup_cmd": "python3 run.py --setup",
    "hooks": {
        "guard": "RTRLIB_VERIF",
        "enable": "goto-cc -DRTRLIB_VERIF on the unmodified sources of /repo (contracts live on re-declarations in /verif/contracts and /verif/units; "
                  "loop contracts are attached with --loop-contracts-file); no hook in /repo is needed",
        "baseline_off_cmd": "./baseline.sh",
        "source_commits": [],
        "add_only": True,
    },
    "engines": [{"name": "cbmc-contracts", "path": "run.py", "serves_properties": [c["property_id"] for c in checks],
                 "kind_free_text": "contract-based deductive verification: cbmc 6.11.0 + goto-instrument --dfcc (function contracts, "
                                   "loop contracts), proof units in units/, contracts in contracts/, plan in plan.py"}],
    "checks": checks,
    "not_applicable": na,
    "notes": "Fix commits in /repo and open findings are listed in known_findings.json. Exit 2 of a check means inconclusive "
             "(tool error / timeout / a proof artefact no longer lines up with the code), never a violation.",
}
json.dump(man, open(os.path.join(HERE, "MANIFEST.json"), "w"), indent=1)
print("MANIFEST.json: %d checks, %d not_applicable" % (len(checks), len(na)))
