/*
 * verif.h -- glue shared by every proof unit.
 *
 * A unit is one C file that #includes the real /repo source under
 * verification, states contracts on re-declarations of the real functions
 * (contracts/ *.h), builds a pre-state from a "tape" of nondeterministic
 * words, calls the function under contract once and re-checks the contract's
 * postcondition macros (so that the same file, compiled natively with
 * -DVERIF_NATIVE against the real sources, replays a counterexample).
 *
 * CBMC reading:   VND_*()  = fresh nondeterministic value, recorded in g_tape
 *                 ASSUME   = __CPROVER_assume
 *                 CHECK    = __CPROVER_assert (an obligation)
 *                 CANARY   = assertion that MUST FAIL (vacuity guard)
 * native reading: VND_*()  = next word of the tape file
 *                 ASSUME   = exit(3) "precondition not met" if false
 *                 CHECK    = exit(1) "REPLAY-FAILED <msg>" if false
 *                 CANARY   = nothing
 */
#ifndef VERIF_H
#define VERIF_H

#include <stdbool.h>
#include <stddef.h>
#include <stdint.h>

#define VTAPE_MAX 2048

#ifdef VERIF_NATIVE
/* ------------------------------------------------------------------ native */
#include <stdio.h>
#include <stdlib.h>
extern uint64_t g_tape[VTAPE_MAX];
extern unsigned int g_tape_n;
extern unsigned int g_tape_len;
static inline uint64_t vtape_next(void)
{
	if (g_tape_n >= g_tape_len) {
		/* tape exhausted: value was irrelevant to the verifier's trace */
		g_tape_n++;
		return 0;
	}
	return g_tape[g_tape_n++];
}

#define ASSUME(c)                                                                  \
	do {                                                                       \
		if (!(c)) {                                                        \
			printf("REPLAY-PRECONDITION-NOT-MET %s\n", #c);            \
			exit(3);                                                   \
		}                                                                  \
	} while (0)
#define CHECK(c, msg)                                                              \
	do {                                                                       \
		if (!(c)) {                                                        \
			printf("REPLAY-FAILED %s\n", msg);                         \
			fflush(stdout);                                            \
			exit(1);                                                   \
		}                                                                  \
	} while (0)
#define CANARY(msg)                                                                \
	do {                                                                       \
	} while (0)

/* contract clauses vanish natively */
#define __CPROVER_requires(...)
#define __CPROVER_ensures(...)
#define __CPROVER_assigns(...)
#define __CPROVER_frees(...)
/* native reading of "p points into the array a" (second argument must be an array object) */
#define __CPROVER_same_object(p, a) ((const char *)(p) >= (const char *)(a) && (const char *)(p) < (const char *)(a) + sizeof(a))
#define __CPROVER_assume(c) ASSUME(c)
#define __CPROVER_assert(c, m) CHECK(c, m)
#define VERIF_MAIN(h)                                                              \
	uint64_t g_tape[VTAPE_MAX];                                                \
	unsigned int g_tape_n;                                                     \
	unsigned int g_tape_len;                                                   \
	int main(int argc, char **argv)                                            \
	{                                                                          \
		if (argc > 1) {                                                    \
			FILE *f = fopen(argv[1], "r");                             \
			unsigned long long v;                                      \
			if (!f)                                                    \
				return 4;                                          \
			while (g_tape_len < VTAPE_MAX && fscanf(f, "%llu", &v) == 1) \
				g_tape[g_tape_len++] = v;                          \
			fclose(f);                                                 \
		}                                                                  \
		h();                                                               \
		printf("REPLAY-PASSED\n");                                         \
		return 0;                                                          \
	}
#else
/* -------------------------------------------------------------------- CBMC */
/* The tape is not materialised for the verifier (a large array object makes every dereference of a
 * havocked pointer expensive): the replay tape is recovered from the counterexample trace as the
 * sequence of values returned by vtape_next(), in call order. */
uint64_t nondet_uint64_t(void);
extern unsigned int g_tape_n;
static inline uint64_t vtape_next(void)
{
	uint64_t vtape_value = nondet_uint64_t();

	return vtape_value;
}

#define ASSUME(c) __CPROVER_assume(c)
#define CHECK(c, msg) __CPROVER_assert(c, msg)
#define CANARY(msg) __CPROVER_assert(0, "CANARY: " msg)
#define VERIF_MAIN(h) unsigned int g_tape_n;
#endif

#define VND_U8() ((uint8_t)vtape_next())
#define VND_U16() ((uint16_t)vtape_next())
#define VND_U32() ((uint32_t)vtape_next())
#define VND_U64() ((uint64_t)vtape_next())
#define VND_BOOL() ((bool)(vtape_next() & 1))
#define VND_INT() ((int)(uint32_t)vtape_next())

#endif
