/*
 * Socket-level contracts of the functions the state machine (rtr.c) calls, as macros over the socket
 * before (p) and after (s) the call.  Each is CHECKed against the real body in the unit named, and
 * ASSUMEd by the executable stubs of units/fsm.c -- one text, two readings.
 */
#ifndef CONTRACTS_FSM_CLIENT_H
#define CONTRACTS_FSM_CLIENT_H

/*
 * rtr_sync as seen by the state machine (checked on the body in units/sync.c, assumed by the stub in
 * units/fsm.c).  p = copy of the socket before the call, now = the clock value of the call,
 * done = the payload phase ran to its End of Data and was applied (ghost).
 *   done:    session established (adopted only if none was held), request flag cleared, reload mode ended
 *   success: done and time stamp = now.   failure after done: only the clock failed (fatal), stamp unchanged
 *   failure without done: time stamp unchanged; an established session/serial pair survives unless the
 *            socket falls back to requesting a session (reset)
 */
#define STATE_IS_ERR(st)                                                                               \
	((st) == RTR_ERROR_TRANSPORT || (st) == RTR_ERROR_FATAL || (st) == RTR_ERROR_NO_DATA_AVAIL ||  \
	 (st) == RTR_ERROR_NO_INCR_UPDATE_AVAIL || (st) == RTR_FAST_RECONNECT)
#define SYNC_POST(r, s, p, now, done)                                                                  \
	(((r) == 0 || (r) == -1) && (s)->version <= (p)->version &&                                     \
	 ((s)->state == (p)->state || STATE_IS_ERR((s)->state)) && ((r) == 0 ? (s)->state == (p)->state : 1) && \
	 ((p)->request_session_id || (s)->session_id == (p)->session_id) &&                             \
	 ((done) ? (!(s)->request_session_id && !(s)->is_resetting) : 1) &&                             \
	 ((r) == 0 ? ((done) && (s)->last_update == (now)) : (s)->last_update == (p)->last_update) &&   \
	 (((r) == -1 && !(done)) ? ((s)->request_session_id || (!(p)->request_session_id && (s)->serial_number == (p)->serial_number)) : 1) && \
	 (((r) == -1 && (done)) ? ((p)->state == RTR_SHUTDOWN || (s)->state == RTR_ERROR_FATAL) : 1) &&  \
	 (((s)->version < (p)->version) ? ((r) == -1 || !(p)->has_received_pdus) : 1) &&                \
	 (((s)->version < (p)->version && (p)->has_received_pdus) ? ((p)->state == RTR_SHUTDOWN || (s)->state == RTR_FAST_RECONNECT) : 1) && \
	 ((p)->state == RTR_SHUTDOWN ? (s)->state == RTR_SHUTDOWN : 1))


/* rtr_change_socket_state without callback installed (units/send.c: h_change_state) */
#define CSS_POST(s, p, ns) ((s)->state == (((p)->state == (ns) || (p)->state == RTR_SHUTDOWN) ? (p)->state : (ns)))

/* everything but the state is untouched */
#define SOCK_BOOKKEEPING_SAME(s, p)                                                                    \
	((s)->session_id == (p)->session_id && (s)->serial_number == (p)->serial_number &&             \
	 (s)->request_session_id == (p)->request_session_id && (s)->last_update == (p)->last_update && \
	 (s)->is_resetting == (p)->is_resetting && (s)->refresh_interval == (p)->refresh_interval &&   \
	 (s)->expire_interval == (p)->expire_interval && (s)->retry_interval == (p)->retry_interval)

/* rtr_send_serial_query / rtr_send_reset_query (units/send.c): success, or failure with the socket put into
 * ERROR_TRANSPORT; nothing else changes.  What is sent is checked there byte by byte. */
#define SENDQ_POST(r, s, p)                                                                            \
	(((r) == 0 ? (s)->state == (p)->state : ((r) == -1 && CSS_POST(s, p, RTR_ERROR_TRANSPORT))) && \
	 SOCK_BOOKKEEPING_SAME(s, p) && (s)->version == (p)->version && (s)->has_received_pdus == (p)->has_received_pdus)

/* rtr_wait_for_sync (units/wait.c): polls no later than last_update + refresh; success = Serial Notify or
 * time-out; never touches session bookkeeping; the version may only go down (first PDU of a connection) */
#define WAIT_POST(r, s, p)                                                                             \
	(((r) == 0 || (r) == -1) && SOCK_BOOKKEEPING_SAME(s, p) && (s)->version <= (p)->version &&     \
	 ((r) == 0 ? (s)->state == (p)->state : ((s)->state == (p)->state || STATE_IS_ERR((s)->state))) && \
	 ((s)->version < (p)->version ? !(p)->has_received_pdus : 1))
#endif
