/*
 * C01/C04 L0: contracts of the bit-extraction functions (utils.c, ipv4.c, ipv6.c, ip.c) against the
 * bit-string spec of spec/spec.h.  Preconditions are the weakest under which the spec holds and are
 * checked at every call site of the callers' units.
 */
#ifndef CONTRACTS_BITS_H
#define CONTRACTS_BITS_H
#include "spec/spec.h"

/* lrtr_get_bits(val, from, number): bits [from, from+number) of val, others zero.
 * Well-defined (no undefined shift, spec holds) for from <= 31, number <= 32; number == 0 yields 0;
 * a span running over the end of the word is cut at the end. */
#define GETBITS_PRE(from, number) ((from) <= 31 && (number) <= 32)
#define GETBITS_SPEC(val, from, number)                                                                \
	((uint32_t)(val) & ((number) == 0 ? 0u : (uint32_t)((0xFFFFFFFFu << (32 - (number))) >> (from))))
uint32_t lrtr_get_bits(const uint32_t val, const uint8_t from, const uint8_t number)
__CPROVER_requires(GETBITS_PRE(from, number))
__CPROVER_ensures(__CPROVER_return_value == GETBITS_SPEC(val, from, number))
__CPROVER_assigns();

struct lrtr_ipv4_addr lrtr_ipv4_get_bits(const struct lrtr_ipv4_addr *val, const uint8_t from, const uint8_t quantity)
__CPROVER_requires(__CPROVER_r_ok(val, sizeof(*val)) && GETBITS_PRE(from, quantity))
__CPROVER_ensures(__CPROVER_return_value.addr == GETBITS_SPEC(val->addr, from, quantity))
__CPROVER_assigns();

/* 128-bit: word w of "bits [first, first+q) of val".  The library only ever asks for a prefix
 * (first == 0) or a single bit (q == 1); the function is wrong for spans that start inside one word and
 * end in another, so the precondition is exactly those two shapes (checked at all call sites). */
#define GETBITS6_PRE(first, q) (((first) == 0 && (q) <= 128) || ((q) == 1 && (first) <= 127))
#define GETBITS6_SPEC_W(a, first, q, w)                                                                \
	((first) == 0 ? SPEC_TOP128_W(a, q, w)                                                         \
		      : ((first) / 32 == (w) ? ((uint32_t)(a)[w] & (0x80000000u >> ((first) % 32))) : 0u))
struct lrtr_ipv6_addr lrtr_ipv6_get_bits(const struct lrtr_ipv6_addr *val, const uint8_t first_bit, const uint8_t quantity)
__CPROVER_requires(__CPROVER_r_ok(val, sizeof(*val)) && GETBITS6_PRE(first_bit, quantity))
__CPROVER_ensures(__CPROVER_return_value.addr[0] == GETBITS6_SPEC_W(val->addr, first_bit, quantity, 0))
__CPROVER_ensures(__CPROVER_return_value.addr[1] == GETBITS6_SPEC_W(val->addr, first_bit, quantity, 1))
__CPROVER_ensures(__CPROVER_return_value.addr[2] == GETBITS6_SPEC_W(val->addr, first_bit, quantity, 2))
__CPROVER_ensures(__CPROVER_return_value.addr[3] == GETBITS6_SPEC_W(val->addr, first_bit, quantity, 3))
__CPROVER_assigns();

/* ---- struct lrtr_ip_addr level (ip.c).  ver is a type invariant: LRTR_IPV4 or LRTR_IPV6. ---- */
#define IPVER_OK(v) ((v) == LRTR_IPV4 || (v) == LRTR_IPV6)
#define IP_GETBITS_PRE(ver, from, n) ((ver) == LRTR_IPV6 ? GETBITS6_PRE(from, n) : GETBITS_PRE(from, n))
#define IP_GETBITS_POST(r, val, from, n)                                                               \
	((r).ver == (val)->ver &&                                                                      \
	 ((val)->ver == LRTR_IPV6                                                                      \
		  ? ((r).u.addr6.addr[0] == GETBITS6_SPEC_W((val)->u.addr6.addr, from, n, 0) &&        \
		     (r).u.addr6.addr[1] == GETBITS6_SPEC_W((val)->u.addr6.addr, from, n, 1) &&        \
		     (r).u.addr6.addr[2] == GETBITS6_SPEC_W((val)->u.addr6.addr, from, n, 2) &&        \
		     (r).u.addr6.addr[3] == GETBITS6_SPEC_W((val)->u.addr6.addr, from, n, 3))          \
		  : (r).u.addr4.addr == GETBITS_SPEC((val)->u.addr4.addr, from, n)))
struct lrtr_ip_addr lrtr_ip_addr_get_bits(const struct lrtr_ip_addr *val, const uint8_t from, const uint8_t number)
__CPROVER_requires(__CPROVER_r_ok(val, sizeof(*val)) && IPVER_OK(val->ver) && IP_GETBITS_PRE(val->ver, from, number))
__CPROVER_ensures(IP_GETBITS_POST(__CPROVER_return_value, val, from, number))
__CPROVER_assigns();

#define IP_IS_ZERO_SPEC(p)                                                                             \
	((p).ver == LRTR_IPV6 ? ((p).u.addr6.addr[0] == 0 && (p).u.addr6.addr[1] == 0 && (p).u.addr6.addr[2] == 0 && (p).u.addr6.addr[3] == 0) \
			      : (p).u.addr4.addr == 0)
bool lrtr_ip_addr_is_zero(const struct lrtr_ip_addr prefix)
__CPROVER_requires(IPVER_OK(prefix.ver))
__CPROVER_ensures(__CPROVER_return_value == IP_IS_ZERO_SPEC(prefix))
__CPROVER_assigns();

#define IP_EQUAL_SPEC(a, b)                                                                            \
	((a).ver == (b).ver &&                                                                         \
	 ((a).ver == LRTR_IPV6 ? ((a).u.addr6.addr[0] == (b).u.addr6.addr[0] && (a).u.addr6.addr[1] == (b).u.addr6.addr[1] && \
				  (a).u.addr6.addr[2] == (b).u.addr6.addr[2] && (a).u.addr6.addr[3] == (b).u.addr6.addr[3]) \
			       : (a).u.addr4.addr == (b).u.addr4.addr))
bool lrtr_ip_addr_equal(const struct lrtr_ip_addr a, const struct lrtr_ip_addr b)
__CPROVER_requires(IPVER_OK(a.ver) && IPVER_OK(b.ver))
__CPROVER_ensures(__CPROVER_return_value == IP_EQUAL_SPEC(a, b))
__CPROVER_assigns();

#endif
