/*
 * C01/C04 L0: contracts of the bit-extraction functions (utils.c, ipv4.c, ipv6.c, ip.c) against the
 * bit-string spec of spec/spec.h.  Preconditions are the weakest under which the spec holds and are
 * checked at every call site of the callers' units.
 */
#ifndef CONTRACTS_BITS_H
#define CONTRACTS_BITS_H
#include "spec/spec.h"
#include "rtrlib/lib/ip_private.h"

/* lrtr_get_bits(val, from, number): bits [from, from+number) of val, others zero.
 * Well-defined (no undefined shift, spec holds) for from <= 31, number <= 32; number == 0 yields 0;
 * a span running over the end of the word is cut at the end. */
#define GETBITS_PRE(from, number) ((from) <= 31 && (number) <= 32)
#define GETBITS_SPEC(val, from, number)                                                                \
	((uint32_t)(val) & ((number) == 0 ? 0u : (uint32_t)((0xFFFFFFFFu << (32 - (number))) >> (from))))
uint32_t lrtr_get_bits(const uint32_t val, const uint8_t from, const uint8_t number)
__CPROVER_requires(GETBITS_PRE(from, number))
__CPROVER_ensures(__CPROVER_return_value == GETBITS_SPEC(val, from, number))
__CPROVER_assigns();

struct lrtr_ipv4_addr lrtr_ipv4_get_bits(const struct lrtr_ipv4_addr *val, const uint8_t from, const uint8_t quantity)
__CPROVER_requires(__CPROVER_r_ok(val, sizeof(*val)) && GETBITS_PRE(from, quantity))
__CPROVER_ensures(__CPROVER_return_value.addr == GETBITS_SPEC(val->addr, from, quantity))
__CPROVER_assigns();

/* 128-bit: word w of "bits [first, first+q) of val".  The library only ever asks for a prefix
 * (first == 0) or a single bit (q == 1); the function is wrong for spans that start inside one word and
 * end in another, so the precondition is exactly those two shapes (checked at all call sites). */
#define GETBITS6_PRE(first, q) (((first) == 0 && (q) <= 128) || ((q) == 1 && (first) <= 127))
#define GETBITS6_SPEC_W(a, first, q, w)                                                                \
	((first) == 0 ? SPEC_TOP128_W(a, q, w)                                                         \
		      : ((first) / 32 == (w) ? ((uint32_t)(a)[w] & (0x80000000u >> ((first) % 32))) : 0u))
struct lrtr_ipv6_addr lrtr_ipv6_get_bits(const struct lrtr_ipv6_addr *val, const uint8_t first_bit, const uint8_t quantity)
__CPROVER_requires(__CPROVER_r_ok(val, sizeof(*val)) && GETBITS6_PRE(first_bit, quantity))
__CPROVER_ensures(__CPROVER_return_value.addr[0] == GETBITS6_SPEC_W(val->addr, first_bit, quantity, 0))
__CPROVER_ensures(__CPROVER_return_value.addr[1] == GETBITS6_SPEC_W(val->addr, first_bit, quantity, 1))
__CPROVER_ensures(__CPROVER_return_value.addr[2] == GETBITS6_SPEC_W(val->addr, first_bit, quantity, 2))
__CPROVER_ensures(__CPROVER_return_value.addr[3] == GETBITS6_SPEC_W(val->addr, first_bit, quantity, 3))
__CPROVER_assigns();

/* ---- struct lrtr_ip_addr level (ip.c).  ver is a type invariant: LRTR_IPV4 or LRTR_IPV6. ----
 * Contracts dereference each pointer ONCE and hand values to pure spec functions: every syntactic
 * dereference in a contract clause costs a full set of pointer checks at every call site. */
#define IPVER_OK(v) ((v) == LRTR_IPV4 || (v) == LRTR_IPV6)
#define IP_GETBITS_PRE(ver, from, n) ((ver) == LRTR_IPV6 ? GETBITS6_PRE(from, n) : GETBITS_PRE(from, n))

static inline bool spec_ip_eq(const struct lrtr_ip_addr a, const struct lrtr_ip_addr b)
{
	if (a.ver != b.ver)
		return false;
	if (a.ver == LRTR_IPV6)
		return a.u.addr6.addr[0] == b.u.addr6.addr[0] && a.u.addr6.addr[1] == b.u.addr6.addr[1] &&
		       a.u.addr6.addr[2] == b.u.addr6.addr[2] && a.u.addr6.addr[3] == b.u.addr6.addr[3];
	return a.u.addr4.addr == b.u.addr4.addr;
}

static inline bool spec_ip_is_zero(const struct lrtr_ip_addr p)
{
	if (p.ver == LRTR_IPV6)
		return p.u.addr6.addr[0] == 0 && p.u.addr6.addr[1] == 0 && p.u.addr6.addr[2] == 0 && p.u.addr6.addr[3] == 0;
	return p.u.addr4.addr == 0;
}

/* the value of extracting bits [from, from+n) (spec) */
static inline struct lrtr_ip_addr spec_ip_getbits(const struct lrtr_ip_addr v, uint8_t from, uint8_t n)
{
	struct lrtr_ip_addr r;

	if (v.ver == LRTR_IPV6) {
		struct lrtr_ip_addr r6 = {.ver = LRTR_IPV6,
					  .u.addr6.addr = {GETBITS6_SPEC_W(v.u.addr6.addr, from, n, 0),
							   GETBITS6_SPEC_W(v.u.addr6.addr, from, n, 1),
							   GETBITS6_SPEC_W(v.u.addr6.addr, from, n, 2),
							   GETBITS6_SPEC_W(v.u.addr6.addr, from, n, 3)}};
		r = r6;
	} else {
		struct lrtr_ip_addr r4 = {.ver = v.ver, .u.addr4.addr = GETBITS_SPEC(v.u.addr4.addr, from, n)};
		r = r4;
	}
	return r;
}
static inline bool spec_ip_getbits_is(const struct lrtr_ip_addr r, const struct lrtr_ip_addr v, uint8_t from, uint8_t n)
{
	return spec_ip_eq(r, spec_ip_getbits(v, from, n));
}
#define IP_GETBITS_POST(r, val, from, n) spec_ip_getbits_is(r, *(val), from, n)
#define IP_IS_ZERO_SPEC(p) spec_ip_is_zero(p)
#define IP_EQUAL_SPEC(a, b) spec_ip_eq(a, b)

/*
 * Each contract below exists in two forms generated from the same PRE / SPEC text:
 *   - the CBMC contract on the re-declaration (enforced on the real body by the L0 units,
 *     usable with --replace-call-with-contract);
 *   - with -DSTUB_IP, an executable form  { assert(PRE); return SPEC; }  that stands in for the body in
 *     units that do not link ip.c.  It is the contract replacement done by hand: DFCC's own replacement
 *     allocates several bookkeeping objects per call site, and every dereference of a pointer havocked
 *     by a loop contract enumerates all objects of the program.
 */
#ifndef STUB_IP
struct lrtr_ip_addr lrtr_ip_addr_get_bits(const struct lrtr_ip_addr *val, const uint8_t from, const uint8_t number)
__CPROVER_requires(__CPROVER_r_ok(val, sizeof(*val)) && IPVER_OK(val->ver) && IP_GETBITS_PRE(val->ver, from, number))
__CPROVER_ensures(spec_ip_getbits_is(__CPROVER_return_value, *val, from, number))
__CPROVER_assigns();

bool lrtr_ip_addr_is_zero(const struct lrtr_ip_addr prefix)
__CPROVER_requires(IPVER_OK(prefix.ver))
__CPROVER_ensures(__CPROVER_return_value == spec_ip_is_zero(prefix))
__CPROVER_assigns();

bool lrtr_ip_addr_equal(const struct lrtr_ip_addr a, const struct lrtr_ip_addr b)
__CPROVER_requires(IPVER_OK(a.ver) && IPVER_OK(b.ver))
__CPROVER_ensures(__CPROVER_return_value == spec_ip_eq(a, b))
__CPROVER_assigns();
#else
struct lrtr_ip_addr lrtr_ip_addr_get_bits(const struct lrtr_ip_addr *val, const uint8_t from, const uint8_t number)
{
	const struct lrtr_ip_addr v = *val;

	__CPROVER_assert(IPVER_OK(v.ver) && IP_GETBITS_PRE(v.ver, from, number), "precondition of lrtr_ip_addr_get_bits (contract, see contracts/bits.h)");
	return spec_ip_getbits(v, from, number);
}

bool lrtr_ip_addr_is_zero(const struct lrtr_ip_addr prefix)
{
	__CPROVER_assert(IPVER_OK(prefix.ver), "precondition of lrtr_ip_addr_is_zero (contract)");
	return spec_ip_is_zero(prefix);
}

bool lrtr_ip_addr_equal(const struct lrtr_ip_addr a, const struct lrtr_ip_addr b)
{
	__CPROVER_assert(IPVER_OK(a.ver) && IPVER_OK(b.ver), "precondition of lrtr_ip_addr_equal (contract)");
	return spec_ip_eq(a, b);
}
#endif

#endif
