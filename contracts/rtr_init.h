/* C17/C05/C13: contract of rtr_init (include after rtr.c). */
#ifndef CONTRACTS_RTR_INIT_H
#define CONTRACTS_RTR_INIT_H
#include "spec/spec.h"

#define INIT_VALID(rf, ex, rt)                                                                         \
	(SPEC_IN_RANGE(rf, SPEC_REFRESH_MIN, SPEC_REFRESH_MAX) && SPEC_IN_RANGE(ex, SPEC_EXPIRE_MIN, SPEC_EXPIRE_MAX) && \
	 SPEC_IN_RANGE(rt, SPEC_RETRY_MIN, SPEC_RETRY_MAX))
/* O(x): pre-state value */
#define INIT_POST(ret, s, O, tr, pt, st, rf, ex, rt, mode, fp, c, g)                                   \
	(INIT_VALID(rf, ex, rt)                                                                        \
		 ? ((ret) == 0 && (s)->refresh_interval == (rf) && (s)->expire_interval == (ex) &&     \
		    (s)->retry_interval == (rt) && (s)->iv_mode == (mode) && (s)->request_session_id == true && \
		    (s)->last_update == 0 && (s)->serial_number == 0 && (s)->version == 1 &&           \
		    (s)->state == RTR_CLOSED && (s)->has_received_pdus == false && (s)->is_resetting == false && \
		    (s)->pfx_table == (pt) && (s)->spki_table == (st) && (s)->thread_id == 0 &&        \
		    (s)->connection_state_fp == (fp) && (s)->connection_state_fp_param_config == (c) && \
		    (s)->connection_state_fp_param_group == (g) && (s)->tr_socket == ((tr) ? (tr) : O((s)->tr_socket))) \
		 : ((ret) == -2 && (s)->refresh_interval == O((s)->refresh_interval) &&                \
		    (s)->expire_interval == O((s)->expire_interval) && (s)->retry_interval == O((s)->retry_interval)))

int rtr_init(struct rtr_socket *rtr_socket, struct tr_socket *tr, struct pfx_table *pfx_table,
	     struct spki_table *spki_table, const unsigned int refresh_interval, const unsigned int expire_interval,
	     const unsigned int retry_interval, enum rtr_interval_mode iv_mode, rtr_connection_state_fp fp,
	     void *fp_param_config, void *fp_param_group)
__CPROVER_requires(__CPROVER_rw_ok(rtr_socket, sizeof(*rtr_socket)))
__CPROVER_ensures(INIT_POST(__CPROVER_return_value, rtr_socket, __CPROVER_old, tr, pfx_table, spki_table, refresh_interval,
			    expire_interval, retry_interval, iv_mode, fp, fp_param_config, fp_param_group))
__CPROVER_assigns(__CPROVER_object_whole(rtr_socket));
#endif
