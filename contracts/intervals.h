/* C17: contracts of the interval functions of packets.c / rtr.c (include after the real .c). */
#ifndef CONTRACTS_INTERVALS_H
#define CONTRACTS_INTERVALS_H
#include "spec/spec.h"

#define RANGE_POST(ret, iv, mn, mx)                                                                    \
	((ret) == ((iv) < (mn) ? -1 : (iv) > (mx) ? 1 : 0))

int rtr_check_interval_range(uint32_t interval, uint32_t minimum, uint32_t maximum)
__CPROVER_requires(1)
__CPROVER_ensures(RANGE_POST(__CPROVER_return_value, interval, minimum, maximum))
__CPROVER_assigns();

/* field selected by an interval type */
#define IV_FIELD(s, t) ((t) == SPEC_IVT_EXPIRE ? (s)->expire_interval : (t) == SPEC_IVT_REFRESH ? (s)->refresh_interval : (s)->retry_interval)
/* O(x) = value of x in the pre-state */
#define APPLY_POST(s, O, iv, t)                                                                        \
	((s)->expire_interval == ((t) == SPEC_IVT_EXPIRE ? (iv) : O((s)->expire_interval)) &&          \
	 (s)->refresh_interval == ((t) == SPEC_IVT_REFRESH ? (iv) : O((s)->refresh_interval)) &&       \
	 (s)->retry_interval == ((t) == SPEC_IVT_RETRY ? (iv) : O((s)->retry_interval)))

void apply_interval_value(struct rtr_socket *rtr_socket, uint32_t interval, enum rtr_interval_type type)
__CPROVER_requires(__CPROVER_rw_ok(rtr_socket, sizeof(*rtr_socket)))
__CPROVER_ensures(APPLY_POST(rtr_socket, __CPROVER_old, interval, type))
__CPROVER_assigns(rtr_socket->expire_interval, rtr_socket->refresh_interval, rtr_socket->retry_interval);

/*
 * rtr_check_interval_option: for a valid interval type and a mode other than IGNORE_ANY (the caller
 * does not call it in that mode: precondition, checked at the call site in the End-of-Data unit) the
 * selected interval becomes SPEC_INTERVAL(mode, old, sent), the other two are unchanged, RTR_SUCCESS.
 * Invalid type: RTR_ERROR, nothing changes.
 */
#define OPTION_POST(ret, s, O, mode, iv, t)                                                            \
	(SPEC_IVT_VALID(t)                                                                             \
		 ? ((ret) == 0 &&                                                                      \
		    (s)->expire_interval == ((t) == SPEC_IVT_EXPIRE ? SPEC_INTERVAL(mode, O((s)->expire_interval), iv, SPEC_EXPIRE_MIN, SPEC_EXPIRE_MAX) : O((s)->expire_interval)) && \
		    (s)->refresh_interval == ((t) == SPEC_IVT_REFRESH ? SPEC_INTERVAL(mode, O((s)->refresh_interval), iv, SPEC_REFRESH_MIN, SPEC_REFRESH_MAX) : O((s)->refresh_interval)) && \
		    (s)->retry_interval == ((t) == SPEC_IVT_RETRY ? SPEC_INTERVAL(mode, O((s)->retry_interval), iv, SPEC_RETRY_MIN, SPEC_RETRY_MAX) : O((s)->retry_interval))) \
		 : ((ret) == -1 && (s)->expire_interval == O((s)->expire_interval) &&                  \
		    (s)->refresh_interval == O((s)->refresh_interval) && (s)->retry_interval == O((s)->retry_interval)))

int rtr_check_interval_option(struct rtr_socket *rtr_socket, int interval_mode, uint32_t interval,
			      enum rtr_interval_type type)
__CPROVER_requires(__CPROVER_rw_ok(rtr_socket, sizeof(*rtr_socket)))
__CPROVER_requires(interval_mode == SPEC_IVM_ACCEPT_ANY || interval_mode == SPEC_IVM_DEFAULT_MIN_MAX || interval_mode == SPEC_IVM_IGNORE_ON_FAILURE)
__CPROVER_ensures(OPTION_POST(__CPROVER_return_value, rtr_socket, __CPROVER_old, interval_mode, interval, type))
__CPROVER_assigns(rtr_socket->expire_interval, rtr_socket->refresh_interval, rtr_socket->retry_interval);

#endif
