/*
 * Contracts of the synchronisation layer of packets.c (include after packets.c, env and contracts/packets.h).
 * Ghost bookkeeping lives in g_gh.
 */
#ifndef CONTRACTS_SYNC_H
#define CONTRACTS_SYNC_H
#include "contracts/fsm_client.h"

struct sync_ghost {
	unsigned int store_calls; /* calls of rtr_sync_receive_and_store_pdus */
	unsigned int errpdu_calls; /* Error Reports handled (rtr_handle_error_pdu) */
	bool cr_refused; /* a Cache Response was refused for its session id */
	unsigned int err_reports; /* error reports requested through rtr_send_error_pdu_from_host */
	unsigned int last_err_code;
	uint32_t eod_sn; /* serial number of the End of Data that completed the last successful store */
	bool store_ok; /* the last store call succeeded */
};
static struct sync_ghost g_gh;

/* rtr_send_error_pdu_from_host: C14 obligations live in its precondition, checked at every call site:
 * the offending PDU handed over is either absent (NULL, 0) or a PDU of at least a header that is readable
 * for the length given, and the report fits the maximum PDU size. */
static int rtr_send_error_pdu_from_host(const struct rtr_socket *rtr_socket, const void *erroneous_pdu,
					const uint32_t erroneous_pdu_len, const enum pdu_error_type error,
					const char *err_text, const uint32_t err_text_len)
__CPROVER_requires(__CPROVER_r_ok(rtr_socket, sizeof(*rtr_socket)))
__CPROVER_requires((erroneous_pdu == NULL && erroneous_pdu_len == 0) || (erroneous_pdu_len >= 8 && __CPROVER_r_ok(erroneous_pdu, erroneous_pdu_len)))
__CPROVER_requires(16ull + erroneous_pdu_len + err_text_len <= SPEC_MAX_PDU_LEN && (err_text_len == 0 || __CPROVER_r_ok(err_text, err_text_len)))
__CPROVER_ensures(g_gh.err_reports == __CPROVER_old(g_gh.err_reports) + 1 && g_gh.last_err_code == (unsigned int)error)
__CPROVER_assigns(g_gh.err_reports, g_gh.last_err_code, __CPROVER_object_whole(&g_env));

/*
 * rtr_handle_cache_response_pdu (C05: session check; C07: bookkeeping when a reload starts).
 *   no session yet   -> adopts the session of the response; a socket that still holds data is put into
 *                       reload mode (is_resetting) and KEEPS its last_update until the reload succeeds
 *   session known    -> equal: nothing changes; different: RTR_ERROR, fatal, an error report is requested
 */
#define CR_SESSION(p) (((const struct pdu_cache_response *)(p))->session_id)
#define CACHE_RESPONSE_POST(r, s, p, O)                                                                \
	(O((s)->request_session_id)                                                                    \
		 ? ((r) == 0 && (s)->session_id == CR_SESSION(p) && (s)->last_update == O((s)->last_update) && \
		    (s)->is_resetting == (O((s)->last_update) != 0 ? true : O((s)->is_resetting)) && (s)->state == O((s)->state)) \
		 : ((s)->session_id == O((s)->session_id) && (s)->last_update == O((s)->last_update) && (s)->is_resetting == O((s)->is_resetting) && \
		    (O((s)->session_id) == CR_SESSION(p) ? ((r) == 0 && (s)->state == O((s)->state))   \
							 : ((r) == -1 && (O((s)->state) == RTR_SHUTDOWN || (s)->state == RTR_ERROR_FATAL)))))
static int rtr_handle_cache_response_pdu(struct rtr_socket *rtr_socket, char *pdu)
__CPROVER_requires(__CPROVER_rw_ok(rtr_socket, sizeof(*rtr_socket)) && __CPROVER_r_ok(pdu, 8))
__CPROVER_ensures(CACHE_RESPONSE_POST(__CPROVER_return_value, rtr_socket, pdu, __CPROVER_old))
__CPROVER_ensures(__CPROVER_old(rtr_socket->request_session_id) || __CPROVER_old(rtr_socket->session_id) == CR_SESSION(pdu) ||
		  g_gh.err_reports == __CPROVER_old(g_gh.err_reports) + 1)
__CPROVER_assigns(rtr_socket->session_id, rtr_socket->last_update, rtr_socket->is_resetting, rtr_socket->state, g_gh.err_reports,
		  g_gh.last_err_code, __CPROVER_object_whole(&g_env));

/* client reading: same clauses plus the ghost flag "refused" */
static int rtr_handle_cache_response_pdu__client(struct rtr_socket *rtr_socket, char *pdu)
__CPROVER_requires(__CPROVER_rw_ok(rtr_socket, sizeof(*rtr_socket)) && __CPROVER_r_ok(pdu, 8))
__CPROVER_ensures(CACHE_RESPONSE_POST(__CPROVER_return_value, rtr_socket, pdu, __CPROVER_old))
__CPROVER_ensures(__CPROVER_old(rtr_socket->request_session_id) || __CPROVER_old(rtr_socket->session_id) == CR_SESSION(pdu) ||
		  g_gh.err_reports == __CPROVER_old(g_gh.err_reports) + 1)
__CPROVER_ensures(g_gh.cr_refused == (__CPROVER_return_value != 0))
__CPROVER_assigns(rtr_socket->session_id, rtr_socket->last_update, rtr_socket->is_resetting, rtr_socket->state, g_gh.err_reports,
		  g_gh.last_err_code, g_gh.cr_refused, __CPROVER_object_whole(&g_env));

/*
 * rtr_handle_error_pdu (C13: downgrade on "Unsupported Protocol Version" only, and only downward):
 *   code 2 -> NO_DATA_AVAIL; code 4 carrying a lower supported version -> version lowered, FAST_RECONNECT;
 *   everything else -> ERROR_FATAL.  A socket that is shut down keeps its state.
 */
#define ERRPDU_CODE(p) (((const struct pdu_error *)(p))->error_code)
#define ERRPDU_VER(p) (((const struct pdu_error *)(p))->ver)
#define ERROR_PDU_POST(r, s, p, O)                                                                     \
	((r) == 0 &&                                                                                   \
	 ((ERRPDU_CODE(p) == SPEC_ERR_UNSUPPORTED_VERSION && ERRPDU_VER(p) <= 1 && ERRPDU_VER(p) < O((s)->version))       \
		  ? ((s)->version == ERRPDU_VER(p) && (O((s)->state) == RTR_SHUTDOWN ? (s)->state == RTR_SHUTDOWN : (s)->state == RTR_FAST_RECONNECT)) \
		  : ((s)->version == O((s)->version) &&                                                \
		     (O((s)->state) == RTR_SHUTDOWN ? (s)->state == RTR_SHUTDOWN                       \
						    : (s)->state == (ERRPDU_CODE(p) == SPEC_ERR_NO_DATA ? RTR_ERROR_NO_DATA_AVAIL : RTR_ERROR_FATAL)))))
static int rtr_handle_error_pdu(struct rtr_socket *rtr_socket, const void *buf)
__CPROVER_requires(__CPROVER_rw_ok(rtr_socket, sizeof(*rtr_socket)) && __CPROVER_r_ok(buf, 3248) && HP(buf)->type == SPEC_PDU_ERROR && HOST_LEN_OK(buf))
__CPROVER_ensures(ERROR_PDU_POST(__CPROVER_return_value, rtr_socket, buf, __CPROVER_old))
__CPROVER_assigns(rtr_socket->version, rtr_socket->state);
/* client reading: the same clauses plus ghost bookkeeping (a call counter) that is not program state */
static int rtr_handle_error_pdu__client(struct rtr_socket *rtr_socket, const void *buf)
__CPROVER_requires(__CPROVER_rw_ok(rtr_socket, sizeof(*rtr_socket)) && __CPROVER_r_ok(buf, 3248) && HP(buf)->type == SPEC_PDU_ERROR && HOST_LEN_OK(buf))
__CPROVER_ensures(ERROR_PDU_POST(__CPROVER_return_value, rtr_socket, buf, __CPROVER_old))
__CPROVER_ensures(g_gh.errpdu_calls == __CPROVER_old(g_gh.errpdu_calls) + 1)
__CPROVER_assigns(rtr_socket->version, rtr_socket->state, g_gh.errpdu_calls);

/*
 * rtr_sync_receive_and_store_pdus, frame reading (C05 / C13 / C17): session bookkeeping only.
 *   success: serial = serial of the End of Data, session and request flag untouched, reload mode ended
 *   failure: serial and session untouched; the request flag is untouched or set (purge + reset)
 */
#define STORE_FRAME_POST(r, s, O)                                                                      \
	(((r) == 0 || (r) == -1) && (s)->session_id == O((s)->session_id) && (s)->version <= O((s)->version) && \
	 (s)->last_update == O((s)->last_update) && ((s)->state == O((s)->state) || STATE_IS_ERR((s)->state)) && \
	 ((r) == 0 ? (s)->state == O((s)->state) : 1) &&                                               \
	 (((s)->version < O((s)->version) && O((s)->has_received_pdus)) ? ((r) == -1 && (s)->state == RTR_FAST_RECONNECT) : 1) && \
	 ((r) == 0 ? ((s)->serial_number == g_gh.eod_sn && (s)->request_session_id == O((s)->request_session_id) && !(s)->is_resetting && g_gh.store_ok) \
		   : ((s)->serial_number == O((s)->serial_number) && ((s)->request_session_id == O((s)->request_session_id) || (s)->request_session_id) && !g_gh.store_ok)))
static int rtr_sync_receive_and_store_pdus(struct rtr_socket *rtr_socket)
__CPROVER_requires(__CPROVER_rw_ok(rtr_socket, sizeof(*rtr_socket)) && rtr_socket->version <= 1)
__CPROVER_ensures(STORE_FRAME_POST(__CPROVER_return_value, rtr_socket, __CPROVER_old))
__CPROVER_ensures(g_gh.store_calls == __CPROVER_old(g_gh.store_calls) + 1)
__CPROVER_assigns(rtr_socket->serial_number, rtr_socket->request_session_id, rtr_socket->is_resetting, rtr_socket->state,
		  rtr_socket->version, rtr_socket->has_received_pdus, rtr_socket->refresh_interval, rtr_socket->expire_interval,
		  rtr_socket->retry_interval, g_gh.store_calls, g_gh.eod_sn, g_gh.store_ok, g_gh.err_reports, g_gh.last_err_code,
		  g_gh.errpdu_calls, __CPROVER_object_whole(&g_env));

#include "contracts/fsm_client.h"

#endif
