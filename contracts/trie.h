/*
 * Contracts of trie.c over the spine model (units/trie_spine.h).  Include after trie.c and trie_spine.h.
 */
#ifndef CONTRACTS_TRIE_H
#define CONTRACTS_TRIE_H

/* is_left_child(addr, lvl): bit lvl of the address is 0; at or beyond the address width (no bit left)
 * the answer is "left" -- in a well-formed trie nothing hangs below a node at that depth. */
#define ADDR_W(ver) ((ver) == LRTR_IPV6 ? 128u : 32u)
static inline bool spec_is_left(const struct lrtr_ip_addr a, unsigned int lvl)
{
	if (lvl >= ADDR_W(a.ver))
		return true;
	if (a.ver == LRTR_IPV6)
		return SPEC_BIT128(a.u.addr6.addr, lvl < 128 ? lvl : 0) == 0;
	return SPEC_BIT32(a.u.addr4.addr, lvl < 32 ? lvl : 0) == 0;
}
static inline bool is_left_child(const struct lrtr_ip_addr *addr, unsigned int lvl)
__CPROVER_requires(__CPROVER_r_ok(addr, sizeof(*addr)) && IPVER_OK(addr->ver))
__CPROVER_ensures(__CPROVER_return_value == spec_is_left(*addr, lvl))
__CPROVER_assigns();

/*
 * trie_lookup on the spine, started at node s = *lvl (or with NULL once the path has ended):
 *   returns the first node at or below s on the query's path that covers (g_q, g_ql), *lvl = its depth;
 *   NULL if no node from s on covers.  "First / none" are stated for the arbitrary ghost node g_k.
 *   Frame: only *lvl.
 */
#define LOOKUP_PRE(root, prefix, mask_len, lvl)                                                        \
	((prefix) == &g_q && (mask_len) == g_ql && g_n <= SPINE_N &&                                   \
	 ((root) == NULL ? *(lvl) == g_n : (*(lvl) < g_n && (root) == &g_nodes[*(lvl)])))
#define LOOKUP_POST(ret, s, lvl)                                                                       \
	(((ret) == NULL ? (*(lvl) == g_n)                                                              \
			: ((s) <= *(lvl) && *(lvl) < g_n && (ret) == &g_nodes[*(lvl) < SPINE_N ? *(lvl) : 0] && SP_COVERS(*(lvl) < SPINE_N ? *(lvl) : 0))) && \
	 (((s) <= g_k && g_k < *(lvl) && g_k < g_n) ? !SP_COVERS(g_k < SPINE_N ? g_k : 0) : 1))

struct trie_node *trie_lookup(const struct trie_node *root, const struct lrtr_ip_addr *prefix, const uint8_t mask_len,
			      unsigned int *lvl)
__CPROVER_requires(__CPROVER_rw_ok(lvl, sizeof(*lvl)))
__CPROVER_requires(LOOKUP_PRE(root, prefix, mask_len, lvl))
__CPROVER_ensures(LOOKUP_POST(__CPROVER_return_value, __CPROVER_old(*lvl), lvl))
__CPROVER_assigns(*lvl);

#endif
