/*
 * Contracts of the receive / send path of packets.c (include after packets.c and env/env_packets.h).
 * b = the buffer in HOST order after rtr_receive_pdu, raw = the bytes as received.
 */
#ifndef CONTRACTS_PACKETS_H
#define CONTRACTS_PACKETS_H
#include "spec/spec.h"

/* host-order view of a received PDU equals the decoding of the raw bytes (per type, RFC 8210 s. 5) */
#define HDR_DECODED(b, raw)                                                                            \
	(((const struct pdu_header *)(b))->ver == RAW_VER(raw) && ((const struct pdu_header *)(b))->type == RAW_TYPE(raw) && \
	 ((const struct pdu_header *)(b))->len == RAW_LEN(raw) &&                                      \
	 (RAW_TYPE(raw) == SPEC_PDU_ROUTER_KEY                                                         \
		  ? (((const struct pdu_router_key *)(b))->flags == RAW_U8(raw, 2) && ((const struct pdu_router_key *)(b))->zero == RAW_U8(raw, 3)) \
		  : ((const struct pdu_header *)(b))->reserved == RAW_U16(raw, 2)))
#define BODY_DECODED(b, raw)                                                                           \
	(RAW_TYPE(raw) == SPEC_PDU_SERIAL_NOTIFY ? ((const struct pdu_serial_notify *)(b))->sn == RAW_U32(raw, 8) \
	 : RAW_TYPE(raw) == SPEC_PDU_IPV4                                                              \
		 ? (((const struct pdu_ipv4 *)(b))->flags == RAW_U8(raw, 8) && ((const struct pdu_ipv4 *)(b))->prefix_len == RAW_U8(raw, 9) && \
		    ((const struct pdu_ipv4 *)(b))->max_prefix_len == RAW_U8(raw, 10) && ((const struct pdu_ipv4 *)(b))->zero == RAW_U8(raw, 11) && \
		    ((const struct pdu_ipv4 *)(b))->prefix == RAW_U32(raw, 12) && ((const struct pdu_ipv4 *)(b))->asn == RAW_U32(raw, 16)) \
	 : RAW_TYPE(raw) == SPEC_PDU_IPV6                                                              \
		 ? (((const struct pdu_ipv6 *)(b))->flags == RAW_U8(raw, 8) && ((const struct pdu_ipv6 *)(b))->prefix_len == RAW_U8(raw, 9) && \
		    ((const struct pdu_ipv6 *)(b))->max_prefix_len == RAW_U8(raw, 10) && ((const struct pdu_ipv6 *)(b))->zero == RAW_U8(raw, 11) && \
		    ((const struct pdu_ipv6 *)(b))->prefix[0] == RAW_U32(raw, 12) && ((const struct pdu_ipv6 *)(b))->prefix[1] == RAW_U32(raw, 16) && \
		    ((const struct pdu_ipv6 *)(b))->prefix[2] == RAW_U32(raw, 20) && ((const struct pdu_ipv6 *)(b))->prefix[3] == RAW_U32(raw, 24) && \
		    ((const struct pdu_ipv6 *)(b))->asn == RAW_U32(raw, 28))                           \
	 : RAW_TYPE(raw) == SPEC_PDU_EOD                                                               \
		 ? (((const struct pdu_end_of_data_v0 *)(b))->sn == RAW_U32(raw, 8) &&                 \
		    (RAW_VER(raw) == 1 ? (((const struct pdu_end_of_data_v1 *)(b))->refresh_interval == RAW_U32(raw, 12) && \
					  ((const struct pdu_end_of_data_v1 *)(b))->retry_interval == RAW_U32(raw, 16) && \
					  ((const struct pdu_end_of_data_v1 *)(b))->expire_interval == RAW_U32(raw, 20)) \
				       : 1))                                                           \
	 : RAW_TYPE(raw) == SPEC_PDU_ROUTER_KEY                                                        \
		 ? (((const struct pdu_router_key *)(b))->asn == RAW_U32(raw, 28) &&                   \
		    ((const struct pdu_router_key *)(b))->ski[0] == RAW_U8(raw, 8) && ((const struct pdu_router_key *)(b))->ski[19] == RAW_U8(raw, 27) && \
		    ((const struct pdu_router_key *)(b))->spki[0] == RAW_U8(raw, 32) && ((const struct pdu_router_key *)(b))->spki[90] == RAW_U8(raw, 122)) \
	 : RAW_TYPE(raw) == SPEC_PDU_ERROR                                                             \
		 ? (((const struct pdu_error *)(b))->len_enc_pdu == RAW_U32(raw, 8) &&                 \
		    *(const uint32_t *)(((const struct pdu_error *)(b))->rest + (SPEC_ERR_ENC_LEN(raw) <= SPEC_MAX_PDU_LEN - 16 ? SPEC_ERR_ENC_LEN(raw) : 0)) == \
			    SPEC_ERR_TXT_LEN(raw))                                                     \
		 : 1)

/* ---- host-order well-formedness of a delivered PDU: what every consumer of rtr_receive_pdu relies on */
#define HP(b) ((const struct pdu_header *)(b))
#define HOST_ERR_ENC(b) (((const struct pdu_error *)(b))->len_enc_pdu)
#define HOST_ERR_TXT(b) (*(const uint32_t *)(((const struct pdu_error *)(b))->rest + (HOST_ERR_ENC(b) <= SPEC_MAX_PDU_LEN - 16 ? HOST_ERR_ENC(b) : 0)))
#define HOST_LEN_OK(b)                                                                                 \
	(HP(b)->type == SPEC_PDU_SERIAL_NOTIFY    ? HP(b)->len == 12                                   \
	 : HP(b)->type == SPEC_PDU_SERIAL_QUERY   ? HP(b)->len == 12                                   \
	 : HP(b)->type == SPEC_PDU_RESET_QUERY    ? HP(b)->len == 8                                    \
	 : HP(b)->type == SPEC_PDU_CACHE_RESPONSE ? HP(b)->len == 8                                    \
	 : HP(b)->type == SPEC_PDU_IPV4           ? HP(b)->len == 20                                   \
	 : HP(b)->type == SPEC_PDU_IPV6           ? HP(b)->len == 32                                   \
	 : HP(b)->type == SPEC_PDU_EOD            ? ((HP(b)->ver == 0 && HP(b)->len == 12) || (HP(b)->ver == 1 && HP(b)->len == 24)) \
	 : HP(b)->type == SPEC_PDU_CACHE_RESET    ? HP(b)->len == 8                                    \
	 : HP(b)->type == SPEC_PDU_ROUTER_KEY     ? HP(b)->len == 123                                  \
	 : HP(b)->type == SPEC_PDU_ERROR                                                               \
		 ? (HP(b)->len >= 16 && HP(b)->len <= SPEC_MAX_PDU_LEN && 16ull + HOST_ERR_ENC(b) <= HP(b)->len && \
		    16ull + HOST_ERR_ENC(b) + HOST_ERR_TXT(b) == HP(b)->len)                           \
		 : 0)

/*
 * rtr_receive_pdu -- the contract every caller is verified against (enforced on the body by
 * units/receive.c, which additionally checks the raw-byte level facts of C04/C13/C14).
 *   ov / oh / os: version, has_received_pdus, state before the call.
 */
#define RECV_RET_OK(r) ((r) == 0 || (r) == -1 || (r) == -2 || (r) == -3 || (r) == -4)
#define RECV_POST(r, s, b, ov, oh, os)                                                                 \
	(RECV_RET_OK(r) && (s)->version <= (ov) && ((s)->version < (ov) ? (!(oh) && (ov) == 1 && (s)->version == 0 && (s)->has_received_pdus) : 1) && \
	 ((r) == 0 ? (HOST_LEN_OK(b) && (HP(b)->ver == (s)->version || HP(b)->type == SPEC_PDU_ERROR) && (s)->state == (os) && \
		      (os) != RTR_SHUTDOWN && (s)->has_received_pdus)                                  \
		   : 1) &&                                                                             \
	 (((r) == -2 || (r) == -3 || (r) == -4) ? (s)->state == (os) : 1) &&                           \
	 ((r) == -1 ? ((s)->state == (os) || (s)->state == RTR_ERROR_TRANSPORT || (s)->state == RTR_ERROR_FATAL) : 1) && \
	 ((oh) ? (s)->has_received_pdus : 1) &&                                                          \
	 ((os) == RTR_SHUTDOWN ? ((r) == -1 && (s)->version == (ov) && (s)->has_received_pdus == (oh) && (s)->state == (os)) : 1))

static int rtr_receive_pdu(struct rtr_socket *rtr_socket, void *pdu, const size_t pdu_len, const time_t timeout)
__CPROVER_requires(__CPROVER_rw_ok(rtr_socket, sizeof(*rtr_socket)) && pdu_len >= 3248 && __CPROVER_rw_ok(pdu, 3248))
__CPROVER_requires(rtr_socket->version <= 1 && __CPROVER_r_ok(rtr_socket->tr_socket, sizeof(struct tr_socket)))
__CPROVER_ensures(RECV_POST(__CPROVER_return_value, rtr_socket, pdu, __CPROVER_old(rtr_socket->version),
			    __CPROVER_old(rtr_socket->has_received_pdus), __CPROVER_old(rtr_socket->state)))
__CPROVER_assigns(__CPROVER_object_upto(pdu, 3248), rtr_socket->version, rtr_socket->has_received_pdus, rtr_socket->state,
		  __CPROVER_object_whole(&g_env));

/* an Error Report as handed to the transport: header, code, encapsulated copy, text (RFC 8210 s. 5.10) */
#define ERRPDU_WELLFORMED(tx, txlen, ver, code, raw, enclen)                                           \
	((txlen) >= 16 + (enclen) && (txlen) <= SPEC_MAX_PDU_LEN && RAW_VER(tx) == (ver) && RAW_TYPE(tx) == SPEC_PDU_ERROR && \
	 RAW_U16(tx, 2) == (code) && RAW_LEN(tx) == (txlen) && RAW_U32(tx, 8) == (enclen) &&           \
	 RAW_U32(tx, 12 + (enclen)) == (txlen) - 16 - (enclen))
#endif
