/*
 * Contracts of the receive / send path of packets.c (include after packets.c and env/env_packets.h).
 * b = the buffer in HOST order after rtr_receive_pdu, raw = the bytes as received.
 */
#ifndef CONTRACTS_PACKETS_H
#define CONTRACTS_PACKETS_H
#include "spec/spec.h"

/* host-order view of a received PDU equals the decoding of the raw bytes (per type, RFC 8210 s. 5) */
#define HDR_DECODED(b, raw)                                                                            \
	(((const struct pdu_header *)(b))->ver == RAW_VER(raw) && ((const struct pdu_header *)(b))->type == RAW_TYPE(raw) && \
	 ((const struct pdu_header *)(b))->len == RAW_LEN(raw) &&                                      \
	 (RAW_TYPE(raw) == SPEC_PDU_ROUTER_KEY                                                         \
		  ? (((const struct pdu_router_key *)(b))->flags == RAW_U8(raw, 2) && ((const struct pdu_router_key *)(b))->zero == RAW_U8(raw, 3)) \
		  : ((const struct pdu_header *)(b))->reserved == RAW_U16(raw, 2)))
#define BODY_DECODED(b, raw)                                                                           \
	(RAW_TYPE(raw) == SPEC_PDU_SERIAL_NOTIFY ? ((const struct pdu_serial_notify *)(b))->sn == RAW_U32(raw, 8) \
	 : RAW_TYPE(raw) == SPEC_PDU_IPV4                                                              \
		 ? (((const struct pdu_ipv4 *)(b))->flags == RAW_U8(raw, 8) && ((const struct pdu_ipv4 *)(b))->prefix_len == RAW_U8(raw, 9) && \
		    ((const struct pdu_ipv4 *)(b))->max_prefix_len == RAW_U8(raw, 10) && ((const struct pdu_ipv4 *)(b))->zero == RAW_U8(raw, 11) && \
		    ((const struct pdu_ipv4 *)(b))->prefix == RAW_U32(raw, 12) && ((const struct pdu_ipv4 *)(b))->asn == RAW_U32(raw, 16)) \
	 : RAW_TYPE(raw) == SPEC_PDU_IPV6                                                              \
		 ? (((const struct pdu_ipv6 *)(b))->flags == RAW_U8(raw, 8) && ((const struct pdu_ipv6 *)(b))->prefix_len == RAW_U8(raw, 9) && \
		    ((const struct pdu_ipv6 *)(b))->max_prefix_len == RAW_U8(raw, 10) && ((const struct pdu_ipv6 *)(b))->zero == RAW_U8(raw, 11) && \
		    ((const struct pdu_ipv6 *)(b))->prefix[0] == RAW_U32(raw, 12) && ((const struct pdu_ipv6 *)(b))->prefix[1] == RAW_U32(raw, 16) && \
		    ((const struct pdu_ipv6 *)(b))->prefix[2] == RAW_U32(raw, 20) && ((const struct pdu_ipv6 *)(b))->prefix[3] == RAW_U32(raw, 24) && \
		    ((const struct pdu_ipv6 *)(b))->asn == RAW_U32(raw, 28))                           \
	 : RAW_TYPE(raw) == SPEC_PDU_EOD                                                               \
		 ? (((const struct pdu_end_of_data_v0 *)(b))->sn == RAW_U32(raw, 8) &&                 \
		    (RAW_VER(raw) == 1 ? (((const struct pdu_end_of_data_v1 *)(b))->refresh_interval == RAW_U32(raw, 12) && \
					  ((const struct pdu_end_of_data_v1 *)(b))->retry_interval == RAW_U32(raw, 16) && \
					  ((const struct pdu_end_of_data_v1 *)(b))->expire_interval == RAW_U32(raw, 20)) \
				       : 1))                                                           \
	 : RAW_TYPE(raw) == SPEC_PDU_ROUTER_KEY                                                        \
		 ? (((const struct pdu_router_key *)(b))->asn == RAW_U32(raw, 28) &&                   \
		    ((const struct pdu_router_key *)(b))->ski[0] == RAW_U8(raw, 8) && ((const struct pdu_router_key *)(b))->ski[19] == RAW_U8(raw, 27) && \
		    ((const struct pdu_router_key *)(b))->spki[0] == RAW_U8(raw, 32) && ((const struct pdu_router_key *)(b))->spki[90] == RAW_U8(raw, 122)) \
	 : RAW_TYPE(raw) == SPEC_PDU_ERROR                                                             \
		 ? (((const struct pdu_error *)(b))->len_enc_pdu == RAW_U32(raw, 8) &&                 \
		    *(const uint32_t *)(((const struct pdu_error *)(b))->rest + (SPEC_ERR_ENC_LEN(raw) <= SPEC_MAX_PDU_LEN - 16 ? SPEC_ERR_ENC_LEN(raw) : 0)) == \
			    SPEC_ERR_TXT_LEN(raw))                                                     \
		 : 1)

/* an Error Report as handed to the transport: header, code, encapsulated copy, text (RFC 8210 s. 5.10) */
#define ERRPDU_WELLFORMED(tx, txlen, ver, code, raw, enclen)                                           \
	((txlen) >= 16 + (enclen) && (txlen) <= SPEC_MAX_PDU_LEN && RAW_VER(tx) == (ver) && RAW_TYPE(tx) == SPEC_PDU_ERROR && \
	 RAW_U16(tx, 2) == (code) && RAW_LEN(tx) == (txlen) && RAW_U32(tx, 8) == (enclen) &&           \
	 RAW_U32(tx, 12 + (enclen)) == (txlen) - 16 - (enclen))
#endif
