/* C20: spec of an enumerator-name function. */
#ifndef CONTRACTS_NAMES_H
#define CONTRACTS_NAMES_H
/* string equality, bounded by the longest enumerator name (< 64); total on NULL */
static bool spec_streq(const char *a, const char *b)
{
	if (!a || !b)
		return false;
	for (unsigned int i = 0; i < 64; i++) {
		if (a[i] != b[i])
			return false;
		if (!a[i])
			return true;
	}
	return false;
}

#define NAMES_POST(ret, v, table, n)                                                       \
	(((unsigned int)(v) < (n)) ? spec_streq((ret), (table)[(unsigned int)(v) < (n) ? (unsigned int)(v) : 0]) \
				   : ((ret) == NULL))
#endif
