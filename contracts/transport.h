/*
 * C04/C14: contracts of tr_recv_all / tr_send_all (transport.c).
 * Environment model (units/transport.c proves the contracts against it): a transport's recv_fp/send_fp
 * returns an error code (< 0) or transfers between 1 and `len` bytes starting at `buf` -- ANY chunking.
 * ASSUMPTION (stated in DESIGN.md): a transport never returns 0 (tcp and ssh transports map 0 to
 * TR_CLOSED); with a 0-returning transport the loops would not terminate.
 */
#ifndef CONTRACTS_TRANSPORT_H
#define CONTRACTS_TRANSPORT_H

#define TR_IS_ERR(r) ((r) == -1 || (r) == -2 || (r) == -3 || (r) == -4)
#define TR_XFER_MAX 3248u

/* ghost transfer log maintained by the environment model */
extern const char *g_xfer_base; /* start of the buffer of the current *_all call */
extern size_t g_xfer_len; /* its length */
extern size_t g_xfer_count; /* bytes transferred so far, always contiguous from base */
extern bool g_xfer_ok; /* every chunk asked for exactly the untransferred rest at the right address */

int tr_recv_all(const struct tr_socket *socket, const void *pdu, const size_t len, const time_t timeout)
__CPROVER_requires(__CPROVER_r_ok(socket, sizeof(*socket)) && len <= TR_XFER_MAX && __CPROVER_w_ok(pdu, len))
__CPROVER_requires(g_xfer_base == (const char *)pdu && g_xfer_len == len && g_xfer_count == 0 && g_xfer_ok)
__CPROVER_ensures(TR_IS_ERR(__CPROVER_return_value) || (__CPROVER_return_value == (int)len && g_xfer_count == len))
__CPROVER_ensures(g_xfer_ok && g_xfer_count <= len)
__CPROVER_assigns(g_xfer_count, g_xfer_ok, __CPROVER_object_upto(pdu, len));

int tr_send_all(const struct tr_socket *socket, const void *pdu, const size_t len, const time_t timeout)
__CPROVER_requires(__CPROVER_r_ok(socket, sizeof(*socket)) && len <= TR_XFER_MAX && __CPROVER_r_ok(pdu, len))
__CPROVER_requires(g_xfer_base == (const char *)pdu && g_xfer_len == len && g_xfer_count == 0 && g_xfer_ok)
__CPROVER_ensures(TR_IS_ERR(__CPROVER_return_value) || (__CPROVER_return_value == (int)len && g_xfer_count == len))
__CPROVER_ensures(g_xfer_ok && g_xfer_count <= len)
__CPROVER_assigns(g_xfer_count, g_xfer_ok);
#endif
