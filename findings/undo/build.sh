#!/bin/sh
# Usage: build.sh <rtrlib source tree> [output binary]
# Builds demo.c together with the library sources with plain gcc (no cmake).
# An empty rtrlib/config.h is supplied through a private include directory so that
# RTRLIB_BGPSEC_ENABLED is undefined and neither openssl nor libssh is needed.
set -eu
SRC=${1:?usage: build.sh <rtrlib source tree> [output]}
HERE=$(cd "$(dirname "$0")" && pwd)
OUT=${2:-$HERE/demo}
CFG=$HERE/cfg
mkdir -p "$CFG/rtrlib"
printf '#ifndef RTR_CONFIG_H\n#define RTR_CONFIG_H\n#endif\n' > "$CFG/rtrlib/config.h"
cp "$CFG/rtrlib/config.h" "$CFG/config.h"

gcc -std=gnu99 -g -O1 -Wall -Wno-unused-function -D_GNU_SOURCE \
    -I"$CFG" -I"$SRC" \
    "$HERE/demo.c" \
    "$SRC/rtrlib/lib/utils.c" "$SRC/rtrlib/lib/alloc_utils.c" "$SRC/rtrlib/lib/convert_byte_order.c" \
    "$SRC/rtrlib/lib/ip.c" "$SRC/rtrlib/lib/ipv4.c" "$SRC/rtrlib/lib/ipv6.c" "$SRC/rtrlib/lib/log.c" \
    "$SRC/rtrlib/pfx/trie/trie.c" "$SRC/rtrlib/pfx/trie/trie-pfx.c" \
    "$SRC/rtrlib/transport/transport.c" \
    "$SRC/rtrlib/rtr/rtr.c" "$SRC/rtrlib/rtr/packets.c" \
    "$SRC/rtrlib/spki/hashtable/ht-spkitable.c" \
    "$SRC/third-party/tommyds/tommy.c" \
    -lpthread -lrt -o "$OUT"
echo "built $OUT"
