/*
 * Demonstration: a failed incremental RTR response must leave the cache's
 * records either exactly as they were before the response (next query is a
 * Serial Query with the old session/serial) or completely purged (next query
 * is a Reset Query).
 *
 * The program runs the REAL rtrlib client state machine (rtr_init/rtr_start,
 * rtr_fsm_start, rtr_sync, rtr_sync_receive_and_store_pdus, the real trie
 * pfx_table) against a scripted fake cache installed through the function
 * pointers of struct tr_socket.
 *
 * Script played by the fake cache:
 *   connection 1
 *     <- Reset Query
 *     -> Cache Response, announce P, End of Data (serial 1), Serial Notify (2)
 *     <- Serial Query (session 0x1234, serial 1)
 *     -> Cache Response, announce X, withdraw X, announce Y, announce P,
 *        End of Data (serial 2)
 *        (announce P is a duplicate: applying the response fails at PDU 4)
 *     <- Error Report (Duplicate Announcement), close
 *   connection 2
 *     <- the "next query": recorded together with a snapshot of the table.
 *
 * With the argument "key" a second scenario is played that fails in the router key
 * part of the response instead: (a) announces P and router key K, (b) is
 * [announce X, withdraw X, announce Y, router key K again (duplicate)].
 *
 * With the argument "oom" a third scenario exercises the purge fallback: (a) announces
 * P and router key K, (b) is [withdraw P, withdraw P (unknown record)]; the undo step
 * "re-add P" then fails because the demo's allocator refuses memory while the undo runs.
 * The only acceptable outcome here is: all records and keys of this cache purged and
 * the next query is a Reset Query.
 *
 * exit 0: property holds, exit 1: property violated, exit 2: harness problem.
 */

#include "rtrlib/lib/alloc_utils.h"
#include "rtrlib/lib/alloc_utils_private.h"
#include "rtrlib/lib/ip.h"
#include "rtrlib/pfx/pfx.h"
#include "rtrlib/rtr/rtr_private.h"
#include "rtrlib/spki/hashtable/ht-spkitable_private.h"
#include "rtrlib/transport/transport.h"

#include <arpa/inet.h>
#include <pthread.h>
#include <stdbool.h>
#include <stdint.h>
#include <stdio.h>
#include <stdlib.h>
#include <string.h>
#include <unistd.h>

#define SESSION 0x1234
#define MAX_REC 16

enum { T_SERIAL_NOTIFY = 0, T_SERIAL_QUERY = 1, T_RESET_QUERY = 2, T_CACHE_RESPONSE = 3, T_IPV4 = 4, T_EOD = 7, T_ROUTER_KEY = 9, T_ERROR = 10 };

struct rec {
	uint32_t prefix; /* host byte order */
	uint8_t len, max_len;
	uint32_t asn;
	const char *name;
};

static const struct rec REC_P = {0x0a010000, 16, 24, 64501, "P"};
static const struct rec REC_X = {0x0a020000, 16, 24, 64502, "X"};
static const struct rec REC_Y = {0x0a030000, 16, 24, 64503, "Y"};
static const struct rec REC_Q = {0x0a090000, 16, 24, 64509, "Q(other cache)"};

#define KEY_ASN 64510
static uint8_t key_ski[SKI_SIZE];
static uint8_t key_spki[SPKI_SIZE];
static bool scenario_key;
static bool scenario_oom;
static volatile bool oom_active; /* set while the undo of the failed response runs */
static int expected_error_code = 7; /* Duplicate Announcement Received */

static void *demo_malloc(size_t size)
{
	return oom_active ? NULL : malloc(size);
}

static void *demo_realloc(void *ptr, size_t size)
{
	return oom_active ? NULL : realloc(ptr, size);
}

struct snapshot {
	bool taken;
	unsigned int n_own;
	unsigned int n_keys; /* router keys of this cache */
	unsigned int n_other;
	struct pfx_record own[MAX_REC];
	bool request_session_id;
	uint32_t session_id;
	uint32_t serial;
};

struct query {
	uint8_t type;
	uint16_t session;
	uint32_t serial;
	int conn;
};

static struct fake_cache {
	struct rtr_socket *rtr;
	int conn; /* number of tr_open calls so far */
	uint8_t version;
	uint8_t rx[1024];
	size_t rx_len, rx_pos;
	struct query queries[8];
	unsigned int n_queries;
	int error_code_seen; /* error code of the Error Report sent by the client, -1 if none */
	struct snapshot after_a; /* at the time the Serial Query of step (b) is sent */
	struct snapshot at_close; /* when the client closes connection 1 after the failure */
	struct snapshot at_next_query; /* when the client sends its next query */
	pthread_mutex_t mtx;
	pthread_cond_t cond;
	bool done;
} fc = {.error_code_seen = -1, .mtx = PTHREAD_MUTEX_INITIALIZER, .cond = PTHREAD_COND_INITIALIZER};

/* ---- building PDUs in wire format ---------------------------------------------------------- */

static void put8(uint8_t v)
{
	fc.rx[fc.rx_len++] = v;
}

static void put16(uint16_t v)
{
	put8(v >> 8);
	put8(v & 0xff);
}

static void put32(uint32_t v)
{
	put16(v >> 16);
	put16(v & 0xffff);
}

static void q_cache_response(void)
{
	put8(fc.version);
	put8(T_CACHE_RESPONSE);
	put16(SESSION);
	put32(8);
}

static void q_ipv4(const struct rec *r, bool announce)
{
	put8(fc.version);
	put8(T_IPV4);
	put16(0);
	put32(20);
	put8(announce ? 1 : 0);
	put8(r->len);
	put8(r->max_len);
	put8(0);
	put32(r->prefix);
	put32(r->asn);
}

static void q_router_key(bool announce)
{
	put8(fc.version);
	put8(T_ROUTER_KEY);
	put8(announce ? 1 : 0);
	put8(0);
	put32(8 + SKI_SIZE + 4 + SPKI_SIZE);
	for (unsigned int i = 0; i < SKI_SIZE; i++)
		put8(key_ski[i]);
	put32(KEY_ASN);
	for (unsigned int i = 0; i < SPKI_SIZE; i++)
		put8(key_spki[i]);
}

static void q_eod(uint32_t serial)
{
	put8(fc.version);
	put8(T_EOD);
	put16(SESSION);
	if (fc.version == 0) {
		put32(12);
		put32(serial);
	} else {
		put32(24);
		put32(serial);
		put32(3600); /* refresh */
		put32(600); /* retry */
		put32(7200); /* expire */
	}
}

static void q_serial_notify(uint32_t serial)
{
	put8(fc.version);
	put8(T_SERIAL_NOTIFY);
	put16(SESSION);
	put32(12);
	put32(serial);
}

/* ---- table snapshots ------------------------------------------------------------------------ */

static void snap_cb(const struct pfx_record *r, void *data)
{
	struct snapshot *s = data;

	if (r->socket == fc.rtr) {
		if (s->n_own < MAX_REC)
			s->own[s->n_own] = *r;
		s->n_own++;
	} else {
		s->n_other++;
	}
}

static void take_snapshot(struct snapshot *s)
{
	memset(s, 0, sizeof(*s));
	pfx_table_for_each_ipv4_record(fc.rtr->pfx_table, snap_cb, s);
	pfx_table_for_each_ipv6_record(fc.rtr->pfx_table, snap_cb, s);

	struct spki_record *keys = NULL;
	unsigned int n = 0;

	if (spki_table_get_all(fc.rtr->spki_table, KEY_ASN, key_ski, &keys, &n) == SPKI_SUCCESS) {
		for (unsigned int i = 0; i < n; i++) {
			if (keys[i].socket == fc.rtr)
				s->n_keys++;
		}
		lrtr_free(keys);
	}
	s->request_session_id = fc.rtr->request_session_id;
	s->session_id = fc.rtr->session_id;
	s->serial = fc.rtr->serial_number;
	s->taken = true;
}

static const char *rec_name(const struct pfx_record *r)
{
	const struct rec *all[] = {&REC_P, &REC_X, &REC_Y, &REC_Q};

	for (unsigned int i = 0; i < sizeof(all) / sizeof(all[0]); i++) {
		if (r->prefix.ver == LRTR_IPV4 && r->prefix.u.addr4.addr == all[i]->prefix && r->asn == all[i]->asn &&
		    r->min_len == all[i]->len && r->max_len == all[i]->max_len)
			return all[i]->name;
	}
	return "?";
}

static bool is_rec(const struct pfx_record *r, const struct rec *x)
{
	return r->prefix.ver == LRTR_IPV4 && r->prefix.u.addr4.addr == x->prefix && r->asn == x->asn &&
	       r->min_len == x->len && r->max_len == x->max_len;
}

static void print_snapshot(const char *title, const struct snapshot *s)
{
	printf("%s\n", title);
	if (!s->taken) {
		printf("    (not taken)\n");
		return;
	}
	printf("    request_session_id=%s session_id=0x%x serial_number=%u, records of other caches: %u\n",
	       s->request_session_id ? "true" : "false", s->session_id, s->serial, s->n_other);
	printf("    router keys of this cache: %u%s\n", s->n_keys, s->n_keys ? "  (K)" : "");
	printf("    records of this cache: %u\n", s->n_own);
	for (unsigned int i = 0; i < s->n_own && i < MAX_REC; i++) {
		char ip[INET6_ADDRSTRLEN];

		lrtr_ip_addr_to_str(&s->own[i].prefix, ip, sizeof(ip));
		printf("      %s  %s/%u-%u AS%u\n", rec_name(&s->own[i]), ip, s->own[i].min_len, s->own[i].max_len,
		       s->own[i].asn);
	}
}

/* ---- fake transport ---------------------------------------------------------------------------- */

static void signal_done(void)
{
	pthread_mutex_lock(&fc.mtx);
	fc.done = true;
	pthread_cond_broadcast(&fc.cond);
	pthread_mutex_unlock(&fc.mtx);
}

static int fake_open(void *sock)
{
	(void)sock;
	fc.conn++;
	fc.rx_len = 0;
	fc.rx_pos = 0;
	return TR_SUCCESS;
}

static void fake_close(void *sock)
{
	(void)sock;
	oom_active = false;
	if (fc.conn == 1 && fc.n_queries == 2 && !fc.at_close.taken)
		take_snapshot(&fc.at_close);
}

static void fake_free(struct tr_socket *sock)
{
	(void)sock;
}

static const char *fake_ident(void *sock)
{
	(void)sock;
	return "scripted-fake-cache";
}

static int fake_send(const void *sock, const void *pdu, const size_t len, const time_t timeout)
{
	(void)sock;
	(void)timeout;
	const uint8_t *p = pdu;

	if (len < 8)
		return TR_ERROR;
	if (p[1] == T_ERROR) {
		fc.error_code_seen = (p[2] << 8) | p[3];
		/* the Error Report is sent right before the undo starts */
		if (scenario_oom && fc.n_queries == 2)
			oom_active = true;
		return (int)len;
	}
	if (p[1] != T_RESET_QUERY && p[1] != T_SERIAL_QUERY)
		return (int)len;

	struct query *q = &fc.queries[fc.n_queries < 8 ? fc.n_queries : 7];

	q->type = p[1];
	q->conn = fc.conn;
	q->session = (p[2] << 8) | p[3];
	q->serial = 0;
	if (p[1] == T_SERIAL_QUERY && len >= 12)
		q->serial = ((uint32_t)p[8] << 24) | (p[9] << 16) | (p[10] << 8) | p[11];
	fc.n_queries++;
	fc.version = p[0];

	if (fc.n_queries == 1) {
		/* (a) initial synchronisation: announce P; then a Serial Notify to trigger (b) at once */
		if (q->type != T_RESET_QUERY) {
			signal_done();
			return (int)len;
		}
		q_cache_response();
		q_ipv4(&REC_P, true);
		if (scenario_key || scenario_oom)
			q_router_key(true);
		q_eod(1);
		q_serial_notify(2);
	} else if (fc.n_queries == 2) {
		/* (b) incremental response that fails at its 4th PDU */
		take_snapshot(&fc.after_a);
		if (q->type != T_SERIAL_QUERY) {
			signal_done();
			return (int)len;
		}
		q_cache_response();
		if (scenario_oom) {
			q_ipv4(&REC_P, false);
			q_ipv4(&REC_P, false); /* withdrawal of unknown record: fails here */
			q_eod(2);
			return (int)len;
		}
		q_ipv4(&REC_X, true);
		q_ipv4(&REC_X, false);
		q_ipv4(&REC_Y, true);
		if (scenario_key)
			q_router_key(true); /* duplicate of K: the router key part fails */
		else
			q_ipv4(&REC_P, true); /* duplicate of P: the prefix part fails */
		q_eod(2);
	} else if (fc.n_queries == 3) {
		/* the next query after the failed response: this is where the property is checked */
		take_snapshot(&fc.at_next_query);
		signal_done();
	}
	return (int)len;
}

static int fake_recv(const void *sock, void *buf, const size_t len, const time_t timeout)
{
	(void)sock;
	(void)timeout;
	for (;;) {
		size_t avail = fc.rx_len - fc.rx_pos;

		if (avail > 0) {
			size_t n = len < avail ? len : avail;

			memcpy(buf, fc.rx + fc.rx_pos, n);
			fc.rx_pos += n;
			if (fc.rx_pos == fc.rx_len) {
				fc.rx_pos = 0;
				fc.rx_len = 0;
			}
			return (int)n;
		}
		/* Nothing scripted any more: block (cancellation point) until the demo stops the socket. */
		usleep(20000);
	}
}

/* ---- main -------------------------------------------------------------------------------------- */

int main(int argc, char **argv)
{
	scenario_key = argc > 1 && strcmp(argv[1], "key") == 0;
	scenario_oom = argc > 1 && strcmp(argv[1], "oom") == 0;
	if (scenario_oom) {
		expected_error_code = 6; /* Withdrawal of Unknown Record */
		lrtr_set_alloc_functions(demo_malloc, demo_realloc, free);
	}
	memset(key_ski, 0xa1, sizeof(key_ski));
	memset(key_spki, 0xb2, sizeof(key_spki));

	struct pfx_table pfx_table;
	struct spki_table spki_table;
	struct tr_socket tr = {.socket = NULL,
			       .open_fp = fake_open,
			       .close_fp = fake_close,
			       .free_fp = fake_free,
			       .send_fp = fake_send,
			       .recv_fp = fake_recv,
			       .ident_fp = fake_ident};
	struct rtr_socket rtr;
	struct rtr_socket other_cache; /* only used as an owner tag for record Q */

	setvbuf(stdout, NULL, _IOLBF, 0);
	memset(&rtr, 0, sizeof(rtr));
	memset(&other_cache, 0, sizeof(other_cache));
	pfx_table_init(&pfx_table, NULL);
	spki_table_init(&spki_table, NULL);

	/* a record of a different cache; it must survive whatever happens to this cache's records */
	struct pfx_record q = {.asn = REC_Q.asn, .min_len = REC_Q.len, .max_len = REC_Q.max_len, .socket = &other_cache};

	q.prefix.ver = LRTR_IPV4;
	q.prefix.u.addr4.addr = REC_Q.prefix;
	if (pfx_table_add(&pfx_table, &q) != PFX_SUCCESS)
		return 2;

	/* retry interval 1s (minimum), intervals from End of Data are ignored so that it stays 1s */
	if (rtr_init(&rtr, &tr, &pfx_table, &spki_table, 3600, 7200, 1, RTR_INTERVAL_MODE_IGNORE_ANY, NULL, NULL,
		     NULL) != RTR_SUCCESS) {
		printf("rtr_init failed\n");
		return 2;
	}
	fc.rtr = &rtr;

	if (rtr_start(&rtr) != RTR_SUCCESS) {
		printf("rtr_start failed\n");
		return 2;
	}

	struct timespec deadline;

	clock_gettime(CLOCK_REALTIME, &deadline);
	deadline.tv_sec += 20;
	pthread_mutex_lock(&fc.mtx);
	while (!fc.done) {
		if (pthread_cond_timedwait(&fc.cond, &fc.mtx, &deadline) != 0)
			break;
	}
	bool done = fc.done;

	pthread_mutex_unlock(&fc.mtx);

	rtr_stop(&rtr);

	printf("\n================ demo result (%s scenario) ================\n", scenario_key ? "router key" : scenario_oom ? "undo fails" : "prefix");
	for (unsigned int i = 0; i < fc.n_queries && i < 8; i++) {
		const struct query *qq = &fc.queries[i];

		if (qq->type == T_RESET_QUERY)
			printf("query %u (connection %d): Reset Query\n", i + 1, qq->conn);
		else
			printf("query %u (connection %d): Serial Query session=0x%x serial=%u\n", i + 1, qq->conn,
			       qq->session, qq->serial);
	}
	printf("error code reported by the client for the failed response: %d (expected %d; 6 = Withdrawal of Unknown Record, 7 = Duplicate Announcement Received)\n",
	       fc.error_code_seen, expected_error_code);
	print_snapshot("state before the failing response (when its Serial Query was sent):", &fc.after_a);
	print_snapshot("state when the client closed the connection after the failed response:", &fc.at_close);
	print_snapshot("state when the client sent its next query:", &fc.at_next_query);

	int rc;

	if (!done || fc.n_queries != 3 || !fc.after_a.taken || !fc.at_next_query.taken) {
		printf("HARNESS PROBLEM: the scripted exchange did not run as expected\n");
		rc = 2;
	} else if (fc.queries[0].type != T_RESET_QUERY || fc.queries[1].type != T_SERIAL_QUERY ||
		   fc.after_a.n_own != 1 || !is_rec(&fc.after_a.own[0], &REC_P) || fc.after_a.serial != 1 ||
		   fc.after_a.request_session_id || fc.error_code_seen != expected_error_code ||
		   fc.after_a.n_keys != ((scenario_key || scenario_oom) ? 1u : 0u)) {
		printf("HARNESS PROBLEM: step (a) did not establish {P}, serial 1, or the response did not fail as planned\n");
		rc = 2;
	} else {
		const struct snapshot *s = &fc.at_next_query;
		const struct query *nq = &fc.queries[2];
		bool restored = nq->type == T_SERIAL_QUERY && nq->session == SESSION && nq->serial == 1 &&
				!s->request_session_id && s->serial == 1 && s->n_own == 1 &&
				is_rec(&s->own[0], &REC_P) && s->n_keys == fc.after_a.n_keys;
		bool purged = nq->type == T_RESET_QUERY && s->request_session_id && s->n_own == 0 && s->n_keys == 0;
		bool others_ok = s->n_other == 1;

		if (scenario_oom && restored) {
			printf("HARNESS PROBLEM: the undo was expected to fail in this scenario but it succeeded\n");
			rc = 2;
		} else if (restored && others_ok) {
			printf("PROPERTY HOLDS: records restored to {P}, next query is Serial Query with old session/serial\n");
			rc = 0;
		} else if (purged && others_ok) {
			printf("PROPERTY HOLDS: all records of this cache purged, next query is a Reset Query\n");
			rc = 0;
		} else {
			printf("PROPERTY VIOLATED: after the failed response the table is neither the pre-response state {P}\n"
			       "  with a Serial Query(session 0x%x, serial 1) nor empty with a Reset Query.\n",
			       SESSION);
			if (!others_ok)
				printf("  (records of the other cache were touched: %u left, expected 1)\n", s->n_other);
			rc = 1;
		}
	}

	pfx_table_free(&pfx_table);
	spki_table_free(&spki_table);
	return rc;
}
