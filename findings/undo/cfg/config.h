#ifndef RTR_CONFIG_H
#define RTR_CONFIG_H
#endif
