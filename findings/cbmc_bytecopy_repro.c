/* cbmc 6.11.0, observed in the session that built units/spki_ops.c: `cbmc cbmc_bytecopy_repro.c --unwind 93` reported
 * "copied: FAILURE" although the copy is correct (the solver needed about 15 minutes for that answer; re-runs with
 * 5 and 10 minute limits did not finish); with `unsigned k = 1;` (concrete index) or with CBMC's own memcpy model the
 * answer is SUCCESS within seconds.  Tool artefact, not an rtrlib finding, and not re-verified on every run; it is
 * the reason units/spki_ops.c keeps CBMC's memcpy model and only replaces memcmp. */
#include <stddef.h>
#include <stdint.h>
struct R { uint8_t ski[20]; uint32_t asn; uint8_t spki[91]; void *s; };
void *my_memcpy(void *dst, const void *src, size_t n)
{
	__CPROVER_assert(__CPROVER_w_ok(dst, n) && __CPROVER_r_ok(src, n), "ok");
	unsigned char *d = dst;
	const unsigned char *c = src;
#pragma CPROVER check push
#pragma CPROVER check disable "pointer"
#pragma CPROVER check disable "bounds"
#pragma CPROVER check disable "pointer-overflow"
	for (size_t i = 0; i < n; i++)
		d[i] = c[i];
#pragma CPROVER check pop
	return dst;
}
struct R a[3], b[4];
unsigned nondet_u(void);
int main(void)
{
	unsigned k = nondet_u();
	__CPROVER_assume(k < 3);
	for (int i = 0; i < 91; i++)
		a[k].spki[i] = 212;
	struct R *out = &b[k];
	my_memcpy(out->ski, a[k].ski, sizeof(a[k].ski));
	my_memcpy(out->spki, a[k].spki, sizeof(a[k].spki));
	__CPROVER_assert(b[k].spki[0] == 212 && b[k].spki[90] == 212, "copied");
}
