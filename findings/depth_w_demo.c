#include "rtrlib/rtrlib.h"
#include <stdio.h>
#include <string.h>
int main(void){
  struct pfx_table t; pfx_table_init(&t, NULL);
  struct pfx_record r; memset(&r,0,sizeof r);
  r.asn = 1; r.socket = NULL;
  lrtr_ip_str_to_addr("::", &r.prefix);
  for (int l=0;l<=128;l++){ r.min_len=l; r.max_len=128; if (pfx_table_add(&t,&r)!=PFX_SUCCESS) printf("add %d failed\n", l);}
  enum pfxv_state res; struct lrtr_ip_addr q; lrtr_ip_str_to_addr("::", &q);
  int rc = pfx_table_validate(&t, 2, &q, 128, &res);
  printf("rc=%d res=%d\n", rc, res);
  return 0;
}
