/*
 * Independent specification layer: small, call-free macros (usable in loop invariants) written from
 * the RFCs and the property statements, not from the implementation.
 */
#ifndef SPEC_SPEC_H
#define SPEC_SPEC_H


/* ---------------------------------------------------------------- RFC 8210 section 6: timer ranges */
#define SPEC_REFRESH_MIN 1u
#define SPEC_REFRESH_MAX 86400u
#define SPEC_RETRY_MIN 1u
#define SPEC_RETRY_MAX 7200u
#define SPEC_EXPIRE_MIN 600u
#define SPEC_EXPIRE_MAX 172800u
/* interval kinds / modes as numbered by the public and private headers (checked by C17 unit canaries) */
#define SPEC_IVT_EXPIRE 0
#define SPEC_IVT_REFRESH 1
#define SPEC_IVT_RETRY 2
#define SPEC_IVT_VALID(t) ((unsigned int)(t) <= 2u)
#define SPEC_IV_MIN(t) ((t) == SPEC_IVT_EXPIRE ? SPEC_EXPIRE_MIN : (t) == SPEC_IVT_REFRESH ? SPEC_REFRESH_MIN : SPEC_RETRY_MIN)
#define SPEC_IV_MAX(t) ((t) == SPEC_IVT_EXPIRE ? SPEC_EXPIRE_MAX : (t) == SPEC_IVT_REFRESH ? SPEC_REFRESH_MAX : SPEC_RETRY_MAX)
#define SPEC_IVM_IGNORE_ANY 0
#define SPEC_IVM_ACCEPT_ANY 1
#define SPEC_IVM_DEFAULT_MIN_MAX 2
#define SPEC_IVM_IGNORE_ON_FAILURE 3
#define SPEC_IN_RANGE(v, mn, mx) ((unsigned int)(v) >= (mn) && (unsigned int)(v) <= (mx))
/* the value an interval must have after an End of Data carrying `sent`, property C17 */
#define SPEC_INTERVAL(mode, old, sent, mn, mx)                                                         \
	((mode) == SPEC_IVM_ACCEPT_ANY ? (unsigned int)(sent)                                              \
	 : (mode) == SPEC_IVM_DEFAULT_MIN_MAX                                                          \
		 ? ((unsigned int)(sent) < (mn) ? (mn) : (unsigned int)(sent) > (mx) ? (mx) : (unsigned int)(sent)) \
	 : (mode) == SPEC_IVM_IGNORE_ON_FAILURE ? (SPEC_IN_RANGE(sent, mn, mx) ? (unsigned int)(sent) : (unsigned int)(old)) \
						: (unsigned int)(old))

/* ---------------------------------------------------------------- bit strings (RFC 6811 covering) */
/* mask with bits [from, from+n) of a 32-bit word set, bit 0 = most significant; 0 <= from, n, from+n <= 32 */
#define SPEC_MASK32(from, n) ((n) == 0 ? 0u : (unsigned int)((0xFFFFFFFFu << (32 - (n))) >> (from)))
/* the n leading bits of a 32-bit word (others zero), 0 <= n <= 32 */
#define SPEC_TOP32(a, n) ((n) == 0 ? 0u : ((unsigned int)(a) & (0xFFFFFFFFu << (32 - (n)))))
/* bit k (0 = most significant) */
#define SPEC_BIT32(a, k) (((unsigned int)(a) >> (31 - (k))) & 1u)
/* word w (0..3) of the n leading bits of a 128-bit value held in 4 host-order words, 0 <= n <= 128 */
#define SPEC_TOP128_W(a, n, w)                                                                         \
	((n) >= 32u * ((w) + 1) ? (unsigned int)(a)[w] : (n) <= 32u * (w) ? 0u : SPEC_TOP32((a)[w], (n) - 32u * (w)))
#define SPEC_BIT128(a, k) SPEC_BIT32((a)[(k) / 32], (k) % 32)

#endif
