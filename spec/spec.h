/*
 * Independent specification layer: small, call-free macros (usable in loop invariants) written from
 * the RFCs and the property statements, not from the implementation.
 */
#ifndef SPEC_SPEC_H
#define SPEC_SPEC_H


/* ---------------------------------------------------------------- RFC 8210 section 6: timer ranges */
#define SPEC_REFRESH_MIN 1u
#define SPEC_REFRESH_MAX 86400u
#define SPEC_RETRY_MIN 1u
#define SPEC_RETRY_MAX 7200u
#define SPEC_EXPIRE_MIN 600u
#define SPEC_EXPIRE_MAX 172800u
/* interval kinds / modes as numbered by the public and private headers (checked by C17 unit canaries) */
#define SPEC_IVT_EXPIRE 0
#define SPEC_IVT_REFRESH 1
#define SPEC_IVT_RETRY 2
#define SPEC_IVT_VALID(t) ((unsigned int)(t) <= 2u)
#define SPEC_IV_MIN(t) ((t) == SPEC_IVT_EXPIRE ? SPEC_EXPIRE_MIN : (t) == SPEC_IVT_REFRESH ? SPEC_REFRESH_MIN : SPEC_RETRY_MIN)
#define SPEC_IV_MAX(t) ((t) == SPEC_IVT_EXPIRE ? SPEC_EXPIRE_MAX : (t) == SPEC_IVT_REFRESH ? SPEC_REFRESH_MAX : SPEC_RETRY_MAX)
#define SPEC_IVM_IGNORE_ANY 0
#define SPEC_IVM_ACCEPT_ANY 1
#define SPEC_IVM_DEFAULT_MIN_MAX 2
#define SPEC_IVM_IGNORE_ON_FAILURE 3
#define SPEC_IN_RANGE(v, mn, mx) ((unsigned int)(v) >= (mn) && (unsigned int)(v) <= (mx))
/* the value an interval must have after an End of Data carrying `sent`, property C17 */
#define SPEC_INTERVAL(mode, old, sent, mn, mx)                                                         \
	((mode) == SPEC_IVM_ACCEPT_ANY ? (unsigned int)(sent)                                              \
	 : (mode) == SPEC_IVM_DEFAULT_MIN_MAX                                                          \
		 ? ((unsigned int)(sent) < (mn) ? (mn) : (unsigned int)(sent) > (mx) ? (mx) : (unsigned int)(sent)) \
	 : (mode) == SPEC_IVM_IGNORE_ON_FAILURE ? (SPEC_IN_RANGE(sent, mn, mx) ? (unsigned int)(sent) : (unsigned int)(old)) \
						: (unsigned int)(old))

/* ---------------------------------------------------------------- bit strings (RFC 6811 covering) */
/* mask with bits [from, from+n) of a 32-bit word set, bit 0 = most significant; 0 <= from, n, from+n <= 32 */
#define SPEC_MASK32(from, n) ((n) == 0 ? 0u : (unsigned int)((0xFFFFFFFFu << (32 - (n))) >> (from)))
/* the n leading bits of a 32-bit word (others zero), 0 <= n <= 32 */
#define SPEC_TOP32(a, n) ((n) == 0 ? 0u : ((unsigned int)(a) & (0xFFFFFFFFu << (32 - (n)))))
/* bit k (0 = most significant) */
#define SPEC_BIT32(a, k) (((unsigned int)(a) >> (31 - (k))) & 1u)
/* word w (0..3) of the n leading bits of a 128-bit value held in 4 host-order words, 0 <= n <= 128 */
#define SPEC_TOP128_W(a, n, w)                                                                         \
	((n) >= 32u * ((w) + 1) ? (unsigned int)(a)[w] : (n) <= 32u * (w) ? 0u : SPEC_TOP32((a)[w], (n) - 32u * (w)))
#define SPEC_BIT128(a, k) SPEC_BIT32((a)[(k) / 32], (k) % 32)

/* ---------------------------------------------------------------- RFC 6810 / RFC 8210 section 5: PDUs */
#define SPEC_PDU_SERIAL_NOTIFY 0
#define SPEC_PDU_SERIAL_QUERY 1
#define SPEC_PDU_RESET_QUERY 2
#define SPEC_PDU_CACHE_RESPONSE 3
#define SPEC_PDU_IPV4 4
#define SPEC_PDU_IPV6 6
#define SPEC_PDU_EOD 7
#define SPEC_PDU_CACHE_RESET 8
#define SPEC_PDU_ROUTER_KEY 9
#define SPEC_PDU_ERROR 10
#define SPEC_MAX_PDU_LEN 3248u
#define SPEC_ERR_CORRUPT_DATA 0
#define SPEC_ERR_INTERNAL 1
#define SPEC_ERR_NO_DATA 2
#define SPEC_ERR_INVALID_REQUEST 3
#define SPEC_ERR_UNSUPPORTED_VERSION 4
#define SPEC_ERR_UNSUPPORTED_PDU_TYPE 5
#define SPEC_ERR_WITHDRAWAL_UNKNOWN 6
#define SPEC_ERR_DUPLICATE 7
#define SPEC_ERR_UNEXPECTED_VERSION 8
/* big-endian fields of a raw PDU held in a byte array b */
#define RAW_U8(b, o) ((unsigned int)(unsigned char)(b)[o])
#define RAW_U16(b, o) ((RAW_U8(b, o) << 8) | RAW_U8(b, (o) + 1))
#define RAW_U32(b, o) ((RAW_U8(b, o) << 24) | (RAW_U8(b, (o) + 1) << 16) | (RAW_U8(b, (o) + 2) << 8) | RAW_U8(b, (o) + 3))
#define RAW_VER(b) RAW_U8(b, 0)
#define RAW_TYPE(b) RAW_U8(b, 1)
#define RAW_LEN(b) RAW_U32(b, 4)
/* exact length of every PDU type (Error Report: nested lengths consistent, in 64-bit arithmetic) */
#define SPEC_ERR_ENC_LEN(b) RAW_U32(b, 8)
#define SPEC_ERR_TXT_LEN(b) RAW_U32(b, (12 + SPEC_ERR_ENC_LEN(b)) <= SPEC_MAX_PDU_LEN - 4 ? 12 + SPEC_ERR_ENC_LEN(b) : 0)
#define SPEC_ERR_LEN_OK(b, len)                                                                        \
	((len) >= 16 && 16ull + SPEC_ERR_ENC_LEN(b) <= (len) &&                                         \
	 16ull + SPEC_ERR_ENC_LEN(b) + SPEC_ERR_TXT_LEN(b) == (len))
#define SPEC_PDU_LEN_OK(b, len)                                                                        \
	(RAW_TYPE(b) == SPEC_PDU_SERIAL_NOTIFY    ? (len) == 12                                        \
	 : RAW_TYPE(b) == SPEC_PDU_SERIAL_QUERY   ? (len) == 12                                        \
	 : RAW_TYPE(b) == SPEC_PDU_RESET_QUERY    ? (len) == 8                                         \
	 : RAW_TYPE(b) == SPEC_PDU_CACHE_RESPONSE ? (len) == 8                                         \
	 : RAW_TYPE(b) == SPEC_PDU_IPV4           ? (len) == 20                                        \
	 : RAW_TYPE(b) == SPEC_PDU_IPV6           ? (len) == 32                                        \
	 : RAW_TYPE(b) == SPEC_PDU_EOD            ? ((RAW_VER(b) == 0 && (len) == 12) || (RAW_VER(b) == 1 && (len) == 24)) \
	 : RAW_TYPE(b) == SPEC_PDU_CACHE_RESET    ? (len) == 8                                         \
	 : RAW_TYPE(b) == SPEC_PDU_ROUTER_KEY     ? (len) == 123                                       \
	 : RAW_TYPE(b) == SPEC_PDU_ERROR          ? SPEC_ERR_LEN_OK(b, len)                            \
						  : 0)

#endif
