#!/bin/sh
# developer aid: run units against a mutated scratch copy of /repo
#   tools/mut.sh '<file>' '<sed-expr>' unit1 [unit2 ...]     or    tools/mut.sh --patch p.diff unit...
set -e
M=$(mktemp -d /var/tmp/mutrepo-XXXXXX)
trap 'rm -rf "$M"' EXIT
rsync -a --exclude _build --exclude .git /repo/ "$M"/
if [ "$1" = "--patch" ]; then ( cd "$M" && patch -p1 -s < "$2" ); shift 2; else
  sed -i -E "$2" "$M/$1"; diff -u "/repo/$1" "$M/$1" | head -20 || true; shift 2; fi
for u in "$@"; do case "$u" in C[0-9]*) VERIF_REPO="$M" python3 /verif/run.py "$u" || true;; *) VERIF_REPO="$M" python3 /verif/run.py --unit "$u" || true;; esac; done
