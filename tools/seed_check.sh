#!/bin/sh
# developer aid: confirm a seeded change (patch + demo) and run checks against it
#   tools/seed_check.sh <dir with patch.diff, build.sh, demo.c> <unit-or-property>...
D=$(cd "$1" && pwd); shift
M=$(mktemp -d /var/tmp/seedrepo-XXXXXX)
trap 'rm -rf "$M"' EXIT
rsync -a --exclude _build --exclude .git /repo/ "$M"/
echo "== demo on unchanged copy"; ( sh "$D/build.sh" "$M" >/var/tmp/seed_demo0.log 2>&1; echo "demo exit (unchanged) = $?" )
( cd "$M" && patch -p1 -s < "$D/patch.diff" ) || { echo "PATCH FAILED"; exit 1; }
echo "== test suite with change"; VERIF_REPO="$M" /verif/baseline.sh | tail -2
echo "== demo with change"; ( sh "$D/build.sh" "$M" >/var/tmp/seed_demo1.log 2>&1; echo "demo exit (changed) = $?" )
for u in "$@"; do case "$u" in C[0-9]*) VERIF_REPO="$M" python3 /verif/run.py "$u" 2>&1 | grep -E "VIOLATION|INCONCLUSIVE|FAILED|violation|rc=" ; echo "check $u exit=$?";; *) VERIF_REPO="$M" python3 /verif/run.py --unit "$u" 2>&1 | tail -4;; esac; done
